// Overlay-only file (oxsim, DESIGN.md §3.2 S3).  NewClientPool's original body is kept
// as newClientPoolReal by the overlay generator; this file adds the swappable front.
package rpc

import (
	"crypto/tls"
	"io"
	"sync"

	"google.golang.org/grpc"
	"google.golang.org/grpc/health/grpc_health_v1"

	"github.com/oxia-db/oxia/oxia/auth"
	"github.com/oxia-db/oxia/proto"
)

// SimConn is a simulated connection.
type SimConn interface {
	grpc.ClientConnInterface
	io.Closer
}

// SimNewPool, when set, is called once per NewClientPool; the returned function dials
// simulated connections on behalf of whoever created the pool.
var SimNewPool func() func(target string) (SimConn, error)

func NewClientPool(tlsConf *tls.Config, authentication auth.Authentication) ClientPool {
	if f := SimNewPool; f != nil {
		return &simClientPool{dial: f(), conns: map[string]SimConn{}}
	}
	return newClientPoolReal(tlsConf, authentication)
}

type simClientPool struct {
	mu    sync.Mutex
	dial  func(target string) (SimConn, error)
	conns map[string]SimConn
}

func (p *simClientPool) get(target string) (SimConn, error) {
	p.mu.Lock()
	defer p.mu.Unlock()
	if c, ok := p.conns[target]; ok {
		return c, nil
	}
	c, err := p.dial(target)
	if err != nil {
		return nil, err
	}
	p.conns[target] = c
	return c, nil
}

func (p *simClientPool) Close() error {
	p.mu.Lock()
	defer p.mu.Unlock()
	for t, c := range p.conns {
		_ = c.Close()
		delete(p.conns, t)
	}
	return nil
}

func (p *simClientPool) GetClientRpc(target string) (proto.OxiaClientClient, error) {
	c, err := p.get(target)
	if err != nil {
		return nil, err
	}
	return &loggingClientRpc{target, proto.NewOxiaClientClient(c)}, nil
}

func (p *simClientPool) GetHealthRpc(target string) (grpc_health_v1.HealthClient, io.Closer, error) {
	c, err := p.dial(target) // not pooled, like the real pool
	if err != nil {
		return nil, nil, err
	}
	return grpc_health_v1.NewHealthClient(c), c, nil
}

func (p *simClientPool) GetCoordinationRpc(target string) (proto.OxiaCoordinationClient, error) {
	c, err := p.get(target)
	if err != nil {
		return nil, err
	}
	return proto.NewOxiaCoordinationClient(c), nil
}

func (p *simClientPool) GetReplicationRpc(target string) (proto.OxiaLogReplicationClient, error) {
	c, err := p.get(target)
	if err != nil {
		return nil, err
	}
	return proto.NewOxiaLogReplicationClient(c), nil
}

func (p *simClientPool) Clear(target string) {
	p.mu.Lock()
	defer p.mu.Unlock()
	if c, ok := p.conns[target]; ok {
		_ = c.Close()
		delete(p.conns, target)
	}
}
