package oxsim

// W3: the WAL in isolation (DESIGN.md §4), used by C09 and C10.

import (
	"bytes"
	"context"
	"errors"
	"fmt"
	"os"
	"path/filepath"
	"sync"
	"sync/atomic"
	"time"

	"github.com/oxia-db/oxia/proto"
	"github.com/oxia-db/oxia/server/wal"
)

type fakeClock struct{}

func (fakeClock) Now() time.Time { return time.Now() } // bubble clock

type commitProvider struct{ v atomic.Int64 }

func (c *commitProvider) CommitOffset() int64 { return c.v.Load() }

// scratchDir returns a fresh directory on tmpfs for one run.
var scratchCounter atomic.Int64

func scratchRoot() string {
	if d := os.Getenv("OXSIM_SCRATCH"); d != "" {
		return d
	}
	return "/dev/shm"
}

func newScratchDir(tag string) string {
	d := filepath.Join(scratchRoot(), fmt.Sprintf("oxsim-%d-%s-%d", os.Getpid(), tag, scratchCounter.Add(1)))
	_ = os.RemoveAll(d)
	if err := os.MkdirAll(d, 0o755); err != nil {
		panic(err)
	}
	return d
}

// ---- list model of the WAL (C09)

type mEntry struct {
	Term      int64
	Offset    int64
	Timestamp uint64
	Value     []byte
}

type walModel struct {
	entries []mEntry // contiguous offsets
	synced  int      // number of leading entries that are synced (visible)
	// ghost holds entries logically trimmed but possibly still on disk: trimming is lazy
	// (segment granular), so a reopen may legitimately expose them again.
	ghost []mEntry
}

func (m *walModel) first() int64 {
	if len(m.entries) == 0 {
		return -1
	}
	return m.entries[0].Offset
}
func (m *walModel) lastAppended() int64 {
	if len(m.entries) == 0 {
		return -1
	}
	return m.entries[len(m.entries)-1].Offset
}
func (m *walModel) lastSynced() int64 {
	if m.synced == 0 {
		return -1
	}
	return m.entries[m.synced-1].Offset
}

type walProgOp struct {
	Kind string `json:"op"`
	A    int64  `json:"a,omitempty"`
	N    int    `json:"n,omitempty"`
}

// runC09 executes one generated WAL program against the list model.
func runC09(r *Run) {
	g := NewRng(r.Seed, "c09")
	segSize := []int32{96, 128, 160, 256, 384, 512, 1024, 4096}[g.Intn(8)]
	maxVal := int(segSize) - 12 - 40
	if maxVal > 300 {
		maxVal = 300
	}
	if maxVal < 4 {
		maxVal = 4
	}
	retention := time.Duration(g.Range(1, 120)) * time.Minute
	checkInterval := time.Duration(g.Range(1, 10)) * time.Minute
	nops := g.Range(5, 60)
	if r.Tier == "thorough" {
		nops = g.Range(5, 120)
	}
	r.Knobs["segment_size"] = segSize
	r.Knobs["retention"] = retention.String()
	r.Knobs["check_interval"] = checkInterval.String()

	dir := newScratchDir("c09")
	defer os.RemoveAll(dir)
	opts := &wal.FactoryOptions{BaseWalDir: dir, Retention: retention, SegmentSize: segSize, SyncData: true}
	cp := &commitProvider{}
	cp.v.Store(-1)

	open := func() wal.Wal {
		w, err := wal.SimNewWal("ns", 1, opts, cp, fakeClock{}, checkInterval)
		if err != nil {
			r.Fail("open-error", "opening wal failed: %v", err)
			return nil
		}
		return w
	}
	w := open()
	if w == nil {
		return
	}
	defer func() {
		if w != nil {
			_ = recoverPanic(func() { _ = w.Close() }) // best-effort cleanup, also after a failed step
		}
	}()
	m := &walModel{}
	term := int64(1)
	var prog []walProgOp
	r.Sample = &prog

	mkEntry := func(off int64) *proto.LogEntry {
		n := g.Range(1, maxVal)
		switch g.Intn(6) {
		case 0: // try to exactly fill / nearly fill the segment is decided by size classes
			n = maxVal
		case 1:
			n = 1
		}
		return &proto.LogEntry{Term: term, Offset: off, Value: g.Bytes(n), Timestamp: uint64(time.Now().UnixMilli())}
	}
	addModel := func(e *proto.LogEntry, synced bool) {
		m.entries = append(m.entries, mEntry{e.Term, e.Offset, e.Timestamp, append([]byte(nil), e.Value...)})
		if synced {
			m.synced = len(m.entries)
		}
	}
	nextOffset := func() int64 {
		if len(m.entries) == 0 {
			if g.Chance(70) {
				return 0
			}
			return int64(g.Range(0, 50))
		}
		return m.lastAppended() + 1
	}

	checkAll := func(where string) bool {
		if r.Failed() {
			return false
		}
		if got, want := w.LastOffset(), m.lastSynced(); got != want {
			r.Fail("last-offset", "%s: LastOffset()=%d, model=%d (first=%d appended=%d)", where, got, want, m.first(), m.lastAppended())
			return false
		}
		if m.synced == len(m.entries) { // first offset is only specified once everything is visible
			if got, want := w.FirstOffset(), m.first(); got != want {
				r.Fail("first-offset", "%s: FirstOffset()=%d, model=%d", where, got, want)
				return false
			}
		}
		return true
	}
	readForward := func(after int64, where string) bool {
		rd, err := w.NewReader(after)
		if after+1 < m.first() || (len(m.entries) == 0 && after+1 < 0) {
			if err == nil {
				// reading below the first offset must not silently succeed with entries
				if rd.HasNext() {
					if e, err2 := rd.ReadNext(); err2 == nil && e.Offset < m.first() {
						r.Fail("read-below-first", "%s: reader after=%d returned trimmed/absent offset %d (first=%d)", where, after, e.Offset, m.first())
					}
				}
				_ = rd.Close()
			}
			return !r.Failed()
		}
		if err != nil {
			r.Fail("reader-error", "%s: NewReader(%d) failed: %v (first=%d last=%d)", where, after, err, m.first(), m.lastSynced())
			return false
		}
		defer rd.Close()
		for i := 0; i < m.synced; i++ {
			me := m.entries[i]
			if me.Offset <= after {
				continue
			}
			if !rd.HasNext() {
				r.Fail("forward-short", "%s: forward reader ended before offset %d (last synced %d)", where, me.Offset, m.lastSynced())
				return false
			}
			e, err := rd.ReadNext()
			if err != nil {
				r.Fail("forward-read-error", "%s: ReadNext at %d: %v", where, me.Offset, err)
				return false
			}
			if e.Offset != me.Offset || e.Term != me.Term || e.Timestamp != me.Timestamp || !bytes.Equal(e.Value, me.Value) {
				r.Fail("forward-mismatch", "%s: offset %d: got (off=%d term=%d ts=%d len=%d) want (off=%d term=%d ts=%d len=%d)", where, me.Offset,
					e.Offset, e.Term, e.Timestamp, len(e.Value), me.Offset, me.Term, me.Timestamp, len(me.Value))
				return false
			}
		}
		if rd.HasNext() {
			r.Fail("forward-long", "%s: forward reader has entries past last synced %d", where, m.lastSynced())
			return false
		}
		return true
	}
	readBackward := func(where string) bool {
		rd, err := w.NewReverseReader()
		if err != nil {
			r.Fail("reader-error", "%s: NewReverseReader failed: %v", where, err)
			return false
		}
		defer rd.Close()
		for i := m.synced - 1; i >= 0; i-- {
			me := m.entries[i]
			if !rd.HasNext() {
				r.Fail("backward-short", "%s: reverse reader ended before offset %d", where, me.Offset)
				return false
			}
			e, err := rd.ReadNext()
			if err != nil {
				r.Fail("backward-read-error", "%s: reverse ReadNext at %d: %v", where, me.Offset, err)
				return false
			}
			if e.Offset != me.Offset || e.Term != me.Term || e.Timestamp != me.Timestamp || !bytes.Equal(e.Value, me.Value) {
				r.Fail("backward-mismatch", "%s: offset %d differs", where, me.Offset)
				return false
			}
		}
		if rd.HasNext() {
			r.Fail("backward-long", "%s: reverse reader has entries before first %d", where, m.first())
			return false
		}
		return true
	}

	gen := g
	for i := 0; i < nops && !r.Failed(); i++ {
		if !r.KeepItem(i) {
			continue
		}
		// each op draws from its own stream so that removing ops does not shift later ones
		g = NewRng(r.Seed, "c09op", i)
		kind := g.Intn(100)
		switch {
		case kind < 30: // Append (synced)
			off := nextOffset()
			e := mkEntry(off)
			prog = append(prog, walProgOp{Kind: "append", A: off, N: len(e.Value)})
			r.lastOp = fmt.Sprintf("%+v with log [%d..%d]", prog[len(prog)-1], m.first(), m.lastAppended())
			if err := w.Append(e); err != nil {
				r.Fail("append-rejected", "Append(%d) after last=%d rejected: %v", off, m.lastAppended(), err)
				break
			}
			addModel(e, true)
			r.Count("op_append", 1)
		case kind < 42: // AppendAsync, maybe several, then maybe Sync
			k := g.Range(1, 4)
			for j := 0; j < k && !r.Failed(); j++ {
				off := nextOffset()
				e := mkEntry(off)
				prog = append(prog, walProgOp{Kind: "append-async", A: off, N: len(e.Value)})
				r.lastOp = fmt.Sprintf("%+v with log [%d..%d]", prog[len(prog)-1], m.first(), m.lastAppended())
				if err := w.AppendAsync(e); err != nil {
					r.Fail("append-rejected", "AppendAsync(%d) after last=%d rejected: %v", off, m.lastAppended(), err)
					break
				}
				addModel(e, false)
			}
			if !r.Failed() && m.lastSynced() != m.lastAppended() {
				// unsynced entries must be invisible
				if got := w.LastOffset(); got != m.lastSynced() {
					r.Fail("unsynced-visible", "LastOffset()=%d exposes unsynced entries (synced=%d)", got, m.lastSynced())
				}
			}
			if g.Chance(70) && !r.Failed() {
				prog = append(prog, walProgOp{Kind: "sync"})
				r.lastOp = fmt.Sprintf("%+v with log [%d..%d]", prog[len(prog)-1], m.first(), m.lastAppended())
				if err := w.Sync(context.Background()); err != nil {
					r.Fail("sync-error", "Sync failed: %v", err)
					break
				}
				m.synced = len(m.entries)
			}
			r.Count("op_append_async", 1)
		case kind < 50: // AppendAndSync
			off := nextOffset()
			e := mkEntry(off)
			prog = append(prog, walProgOp{Kind: "append-and-sync", A: off, N: len(e.Value)})
			r.lastOp = fmt.Sprintf("%+v with log [%d..%d]", prog[len(prog)-1], m.first(), m.lastAppended())
			var wg sync.WaitGroup
			wg.Add(1)
			var cbErr error
			w.AppendAndSync(e, func(err error) { cbErr = err; wg.Done() })
			wg.Wait()
			if cbErr != nil {
				r.Fail("append-rejected", "AppendAndSync(%d) after last=%d rejected: %v", off, m.lastAppended(), cbErr)
				break
			}
			addModel(e, true)
			m.synced = len(m.entries)
			r.Count("op_append_and_sync", 1)
		case kind < 56: // wrong offset must be rejected when the log is not empty
			if len(m.entries) == 0 {
				break
			}
			bad := m.lastAppended() + 1 + int64(g.Range(1, 3))
			if g.Chance(50) {
				bad = m.lastAppended() - int64(g.Range(0, 2))
				if bad < 0 {
					bad = m.lastAppended() + 2
				}
			}
			e := mkEntry(bad)
			prog = append(prog, walProgOp{Kind: "append-bad", A: bad})
			r.lastOp = fmt.Sprintf("%+v with log [%d..%d]", prog[len(prog)-1], m.first(), m.lastAppended())
			if err := w.AppendAsync(e); err == nil {
				r.Fail("bad-offset-accepted", "AppendAsync(%d) accepted although last appended is %d", bad, m.lastAppended())
			} else if !errors.Is(err, wal.ErrInvalidNextOffset) {
				r.Count("bad_offset_other_error", 1)
			}
			r.Count("op_append_bad", 1)
		case kind < 70: // TruncateLog
			if len(m.entries) == 0 {
				break
			}
			if m.synced != len(m.entries) {
				_ = w.Sync(context.Background())
				m.synced = len(m.entries)
			}
			var x int64
			switch g.Intn(5) {
			case 0:
				x = m.lastAppended()
			case 1:
				x = m.first()
			case 2:
				x = m.first() + int64(g.Intn(len(m.entries)))
				if m.first() > 0 && len(m.ghost) == 0 {
					// below everything the log holds (a follower whose log starts above the offset its new
					// leader cuts it to): the log becomes empty
					x = m.first() - 1 - int64(g.Intn(int(min(m.first(), 3))))
					r.Count("truncate_below_first", 1)
				}
			default:
				x = m.first() + int64(g.Intn(len(m.entries)))
			}
			prog = append(prog, walProgOp{Kind: "truncate", A: x})
			r.lastOp = fmt.Sprintf("%+v with log [%d..%d]", prog[len(prog)-1], m.first(), m.lastAppended())
			got, err := w.TruncateLog(x)
			if err != nil {
				r.Fail("truncate-error", "TruncateLog(%d) with log [%d..%d] failed: %v", x, m.first(), m.lastAppended(), err)
				break
			}
			// model
			keep := 0
			for keep < len(m.entries) && m.entries[keep].Offset <= x {
				keep++
			}
			crossed := keep < len(m.entries)
			m.entries = m.entries[:keep]
			m.synced = keep
			if keep == 0 {
				m.entries, m.ghost = nil, nil
			}
			if got != m.lastSynced() {
				r.Fail("truncate-result", "TruncateLog(%d) returned %d, model last=%d", x, got, m.lastSynced())
			}
			if crossed {
				r.Count("truncate_removed_entries", 1)
			}
			r.Count("op_truncate", 1)
		case kind < 73: // Clear
			prog = append(prog, walProgOp{Kind: "clear"})
			r.lastOp = fmt.Sprintf("%+v with log [%d..%d]", prog[len(prog)-1], m.first(), m.lastAppended())
			if err := w.Clear(); err != nil {
				r.Fail("clear-error", "Clear failed: %v", err)
				break
			}
			m.entries, m.synced, m.ghost = nil, 0, nil
			r.Count("op_clear", 1)
		case kind < 82: // Close + reopen
			prog = append(prog, walProgOp{Kind: "reopen"})
			r.lastOp = fmt.Sprintf("%+v with log [%d..%d]", prog[len(prog)-1], m.first(), m.lastAppended())
			if err := w.Close(); err != nil {
				r.Fail("close-error", "Close failed: %v", err)
				break
			}
			w = open()
			if w == nil {
				return
			}
			m.synced = len(m.entries) // graceful close persists everything appended
			if nf := w.FirstOffset(); len(m.entries) > 0 && nf < m.first() && len(m.ghost) > 0 && nf >= m.ghost[0].Offset {
				// lazily trimmed entries are still on disk: they come back (checked for content below)
				k := 0
				for k < len(m.ghost) && m.ghost[k].Offset < nf {
					k++
				}
				back := append([]mEntry(nil), m.ghost[k:]...)
				m.entries = append(back, m.entries...)
				m.synced = len(m.entries)
				m.ghost = m.ghost[:k]
				r.Count("reopen_exposed_lazily_trimmed", 1)
			}
			r.Count("op_reopen", 1)
		case kind < 90: // trim round
			if len(m.entries) == 0 || m.synced != len(m.entries) {
				break
			}
			// choose a commit offset and let fake time pass
			co := m.first() - 1 + int64(g.Intn(len(m.entries)+1))
			cp.v.Store(co)
			adv := time.Duration(g.Range(1, 200)) * time.Minute
			prog = append(prog, walProgOp{Kind: "time+trim", A: co, N: int(adv / time.Minute)})
			r.lastOp = fmt.Sprintf("%+v with log [%d..%d]", prog[len(prog)-1], m.first(), m.lastAppended())
			time.Sleep(adv)
			synctestWait()
			cutoff := uint64(time.Now().Add(-retention).UnixMilli())
			nf := w.FirstOffset()
			of := m.first()
			if nf < of {
				r.Fail("trim-first-decreased", "first offset moved backwards %d -> %d", of, nf)
				break
			}
			if nf > of {
				r.Count("trim_removed", 1)
				// every removed entry must be older than retention and not above the commit offset
				for _, me := range m.entries {
					if me.Offset >= nf {
						break
					}
					if me.Offset > co {
						r.Fail("trim-above-commit", "trim removed offset %d above commit offset %d (new first %d)", me.Offset, co, nf)
						break
					}
					if me.Timestamp > cutoff {
						r.Fail("trim-too-young", "trim removed offset %d with ts %d younger than retention cutoff %d", me.Offset, me.Timestamp, cutoff)
						break
					}
				}
				if nf > m.lastAppended() {
					r.Fail("trim-everything", "trim moved first offset %d past the last entry %d", nf, m.lastAppended())
					break
				}
				d := int(nf - of)
				m.ghost = append(m.ghost, m.entries[:d]...)
				m.entries = m.entries[d:]
				m.synced -= d
			}
			r.Count("op_trim_round", 1)
		default: // read (only specified once every appended entry has been synced)
			if m.synced != len(m.entries) {
				break
			}
			if len(m.entries) > 0 && m.synced > 0 && g.Chance(70) {
				after := m.first() - 1 + int64(g.Intn(m.synced+1))
				prog = append(prog, walProgOp{Kind: "read-fwd", A: after})
				r.lastOp = fmt.Sprintf("%+v with log [%d..%d]", prog[len(prog)-1], m.first(), m.lastAppended())
				readForward(after, "read")
			} else {
				prog = append(prog, walProgOp{Kind: "read-bwd"})
				r.lastOp = fmt.Sprintf("%+v with log [%d..%d]", prog[len(prog)-1], m.first(), m.lastAppended())
				readBackward("read")
			}
			r.Count("op_read", 1)
		}
		if len(prog) > 0 {
			r.Logf("op %d %s first=%d last=%d", i, jsonStr(prog[len(prog)-1]), w.FirstOffset(), w.LastOffset())
		}
		if !r.Failed() {
			lk := ""
			if len(prog) > 0 {
				lk = prog[len(prog)-1].Kind
			}
			checkAll(fmt.Sprintf("after op %d %s", i, lk))
		}
	}
	g = gen
	r.Knobs["plan_size"] = nops
	if !r.Failed() && m.synced == len(m.entries) {
		readForward(m.first()-1, "final")
		readBackward("final")
		// the next append must be accepted exactly at last+1
		if len(m.entries) > 0 {
			e := mkEntry(m.lastAppended() + 1)
			if err := w.Append(e); err != nil {
				r.Fail("append-rejected", "final Append(%d) after last=%d rejected: %v", e.Offset, m.lastAppended(), err)
			}
		}
	}
	if ents, err := os.ReadDir(filepath.Join(dir, "ns", "shard-1")); err == nil && len(ents) > 2 {
		r.Count("rollover_seen", 1)
	}
	r.Sig(fmt.Sprintf("seg=%d ops=%v", segSize, progKinds(prog)))
	if r.Stat("truncate_removed_entries") > 0 || r.Stat("trim_removed") > 0 || r.Stat("op_reopen") > 0 {
		r.Count("nontrivial", 1)
	}
}

func progKinds(p []walProgOp) string {
	s := ""
	for _, o := range p {
		s += o.Kind[:1] + fmt.Sprint(o.A) + ","
	}
	return s
}
