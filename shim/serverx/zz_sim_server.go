// Overlay-only file (oxsim, DESIGN.md §3.2 S2b): adds declarations, changes none.
package server

import (
	"github.com/oxia-db/oxia/proto"
	"github.com/oxia-db/oxia/server/kv"
	"github.com/oxia-db/oxia/server/wal"
)

// SimShardView is a white-box view of one shard on a node, read by the simulator
// at quiescent points only.
type SimShardView struct {
	IsLeader     bool
	Term         int64
	Status       proto.ServingStatus
	Wal          wal.Wal
	DB           kv.DB
	CommitOffset int64 // leader: quorum commit offset; follower: applied commit offset
	HeadOffset   int64
}

func (s *Server) SimShardView(shard int64) (*SimShardView, bool) {
	sd, ok := s.shardsDirector.(*shardsDirector)
	if !ok {
		return nil, false
	}
	if l, ok := sd.leaders[shard]; ok {
		lc := l.(*leaderController)
		v := &SimShardView{IsLeader: true, Term: lc.term, Status: lc.status, Wal: lc.wal, DB: lc.db,
			CommitOffset: wal.InvalidOffset, HeadOffset: wal.InvalidOffset}
		if q := lc.quorumAckTracker; q != nil {
			v.CommitOffset = q.CommitOffset()
			v.HeadOffset = q.HeadOffset()
		}
		return v, true
	}
	if f, ok := sd.followers[shard]; ok {
		fc := f.(*followerController)
		return &SimShardView{IsLeader: false, Term: fc.term, Status: fc.status, Wal: fc.wal, DB: fc.db,
			CommitOffset: fc.commitOffset.Load(), HeadOffset: fc.lastAppendedOffset}, true
	}
	return nil, false
}

func (s *Server) SimShards() []int64 {
	sd, ok := s.shardsDirector.(*shardsDirector)
	if !ok {
		return nil
	}
	var r []int64
	for k := range sd.leaders {
		r = append(r, k)
	}
	for k := range sd.followers {
		r = append(r, k)
	}
	return r
}

// SimEntryTimestamp, when set, supplies the timestamp a leader stamps a new log entry with (production:
// the node's wall clock).  The simulator uses it to give the leaders of different terms clocks that
// disagree by a little, so that timestamps in one log can step backwards across a leader change.
var SimEntryTimestamp func(namespace string, shard int64, term int64, now uint64) uint64

func simEntryTimestamp(namespace string, shard int64, term int64, now uint64) uint64 {
	if SimEntryTimestamp != nil {
		return SimEntryTimestamp(namespace, shard, term, now)
	}
	return now
}

