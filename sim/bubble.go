package oxsim

import (
	"context"
	"testing/synctest"
	"time"
)

// synctestWait blocks until every other goroutine of the bubble is durably blocked.
func synctestWait() { synctest.Wait() }

func ctxTimeout(d time.Duration) (context.Context, context.CancelFunc) {
	return context.WithTimeout(context.Background(), d)
}
