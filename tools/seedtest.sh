#!/bin/bash
# usage: tools/seedtest.sh <patch.diff> <PROP> [quick|thorough] [extra check args]
# applies a seeded defect to /repo, runs one check, reverts.  Never commits anything.
set -u
patch=$1; prop=$2; tier=${3:-quick}; shift 3 || shift $#
cd /repo || exit 2
if ! git diff --quiet; then echo "repo dirty"; exit 2; fi
git apply "$patch" || { echo "patch does not apply"; exit 2; }
cd /verif && ./check "$prop" "$tier" "$@" 2>&1 | grep -v "^minimise" | tail -8
rc=${PIPESTATUS[0]}
cd /repo && git checkout -- . && git status --short | head -3
exit $rc
