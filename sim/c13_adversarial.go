package oxsim

// C13: every request accepted into the log can be applied by every replica.
//
// Three real storage nodes (RF 3, one shard, harness as coordinator) receive syntactically
// valid but unusual WriteRequests -- the kind a well-behaved client library would not build --
// mixed with ordinary ones, leader changes and crash restarts (which force a full replay of
// the log on the next leader).  Oracles:
//
//   (a) a Write RPC that fails with an error although its request is in the leader's log
//       (the request was accepted, its application failed);
//   (b) BecomeLeader / NewTerm failing on a node that has to replay the log;
//   (c) a follower whose applied commit offset stops advancing while the leader commits;
//   (d) ordinary requests failing after an unusual one was logged.
//
// Each run enables a random subset of request categories (swarm), so that the categories with
// recorded findings do not mask the others.

import (
	"context"
	"fmt"
	"sort"
	"strings"
	"time"

	pb "google.golang.org/protobuf/proto"

	"github.com/oxia-db/oxia/proto"
	"github.com/oxia-db/oxia/server/wal"
)

type advCat struct {
	name string
	gen  func(g *Rng, st *advState) *proto.WriteRequest
}

type advState struct {
	sessions []int64
	seqKeys  []string // keys returned by sequence puts
}

var advPrefixes = []string{"sq", "sq/a", "/t/x", "w"}
var advKeys = []string{"a", "b", "k/1", "k/1/x", "/", "", "z-9", "w-abc", "sq-1x", "sq-00000000000000000007-junk", "/t/x-00000000000000000001-00000000000000000002-00000000000000000003"}

func advPut(k string) *proto.PutRequest { return &proto.PutRequest{Key: k, Value: []byte("v")} }

var advCats = []advCat{
	{"seq-no-partition-key", func(g *Rng, _ *advState) *proto.WriteRequest {
		return &proto.WriteRequest{Puts: []*proto.PutRequest{{Key: advPrefixes[g.Intn(4)], Value: []byte("v"), SequenceKeyDelta: []uint64{uint64(g.Range(1, 3))}}}}
	}},
	{"seq-zero-first-delta", func(g *Rng, _ *advState) *proto.WriteRequest {
		return &proto.WriteRequest{Puts: []*proto.PutRequest{{Key: advPrefixes[g.Intn(4)], Value: []byte("v"), PartitionKey: ptr("pk"), SequenceKeyDelta: []uint64{0, uint64(g.Range(0, 2))}}}}
	}},
	{"seq-with-expected-version", func(g *Rng, _ *advState) *proto.WriteRequest {
		return &proto.WriteRequest{Puts: []*proto.PutRequest{{Key: advPrefixes[g.Intn(4)], Value: []byte("v"), PartitionKey: ptr("pk"), ExpectedVersionId: ptr(int64(g.Range(-1, 3))), SequenceKeyDelta: []uint64{1}}}}
	}},
	{"seq-fewer-deltas-than-existing", func(g *Rng, _ *advState) *proto.WriteRequest {
		p := advPrefixes[g.Intn(4)]
		// first a well-formed put with several deltas, then one with fewer (possibly in the same request)
		a := &proto.PutRequest{Key: p, Value: []byte("v"), PartitionKey: ptr("pk"), SequenceKeyDelta: []uint64{1, 1, 1}}
		b := &proto.PutRequest{Key: p, Value: []byte("v"), PartitionKey: ptr("pk"), SequenceKeyDelta: []uint64{1}}
		if g.Chance(50) {
			return &proto.WriteRequest{Puts: []*proto.PutRequest{a, b}}
		}
		if g.Chance(50) {
			return &proto.WriteRequest{Puts: []*proto.PutRequest{a}}
		}
		return &proto.WriteRequest{Puts: []*proto.PutRequest{b}}
	}},
	{"seq-after-lookalike-key", func(g *Rng, _ *advState) *proto.WriteRequest {
		// a plain key inside a sequence's key range whose suffix is not a clean number
		p := advPrefixes[g.Intn(4)]
		if g.Chance(50) {
			return &proto.WriteRequest{Puts: []*proto.PutRequest{advPut(p + []string{"-abc", "-12x", "- 7", "-", "--1", "-99999999999999999999999999"}[g.Intn(6)])}}
		}
		return &proto.WriteRequest{Puts: []*proto.PutRequest{{Key: p, Value: []byte("v"), PartitionKey: ptr("pk"), SequenceKeyDelta: []uint64{uint64(g.Range(1, 3))}}}}
	}},
	{"seq-overflow", func(g *Rng, _ *advState) *proto.WriteRequest {
		return &proto.WriteRequest{Puts: []*proto.PutRequest{{Key: advPrefixes[g.Intn(4)], Value: []byte("v"), PartitionKey: ptr("pk"), SequenceKeyDelta: []uint64{^uint64(0) - uint64(g.Intn(2)), ^uint64(0)}}}}
	}},
	{"seq-many-deltas", func(g *Rng, _ *advState) *proto.WriteRequest {
		d := make([]uint64, g.Range(20, 300))
		for i := range d {
			d[i] = uint64(g.Range(0, 2))
		}
		d[0] = 1
		return &proto.WriteRequest{Puts: []*proto.PutRequest{{Key: "many", Value: []byte("v"), PartitionKey: ptr("pk"), SequenceKeyDelta: d}}}
	}},
	{"seq-with-session-and-index", func(g *Rng, st *advState) *proto.WriteRequest {
		p := &proto.PutRequest{Key: advPrefixes[g.Intn(4)], Value: []byte("v"), PartitionKey: ptr("pk"), SequenceKeyDelta: []uint64{1},
			SecondaryIndexes: []*proto.SecondaryIndex{{IndexName: "ix", SecondaryKey: "s"}}}
		if len(st.sessions) > 0 {
			p.SessionId = ptr(st.sessions[g.Intn(len(st.sessions))])
		} else {
			p.SessionId = ptr(int64(424242))
		}
		return &proto.WriteRequest{Puts: []*proto.PutRequest{p}}
	}},
	{"internal-key-put", func(g *Rng, _ *advState) *proto.WriteRequest {
		k := []string{"__oxia/commit-offset", "__oxia/last-version-id", "__oxia/term", "__oxia/term-options", "__oxia/session/0000000000000001", "__oxia/session/zz",
			"__oxia/notifications/0000000000000000", "__oxia/idx/ix/s\x01a", "__oxia/x", "__oxia/"}[g.Intn(10)]
		return &proto.WriteRequest{Puts: []*proto.PutRequest{{Key: k, Value: []byte([]string{"", "garbage", "7", "-3"}[g.Intn(4)])}}}
	}},
	{"internal-key-delete", func(g *Rng, _ *advState) *proto.WriteRequest {
		k := []string{"__oxia/commit-offset", "__oxia/last-version-id", "__oxia/term", "__oxia/session/0000000000000001", "__oxia/notifications/0000000000000000"}[g.Intn(5)]
		return &proto.WriteRequest{Deletes: []*proto.DeleteRequest{{Key: k}}}
	}},
	{"range-delete-spanning-internal-keys", func(g *Rng, _ *advState) *proto.WriteRequest {
		r := [][2]string{{"", "~"}, {"__oxia/", "__oxia/~"}, {"__a", "z/z"}, {"__oxia/session", "__oxia/session/~"}, {"__oxia/notifications", "__oxia/notifications/~"}, {"", "\xf4\x8f\xbf\xbf/\xf4\x8f\xbf\xbf"}}[g.Intn(6)]
		return &proto.WriteRequest{DeleteRanges: []*proto.DeleteRangeRequest{{StartInclusive: r[0], EndExclusive: r[1]}}}
	}},
	{"range-delete-odd-bounds", func(g *Rng, _ *advState) *proto.WriteRequest {
		r := [][2]string{{"z", "a"}, {"a", "a"}, {"", ""}, {"k/1/x", "k"}, {"/", "//"}, {"a/b/c/d/e/f/g", "a"}}[g.Intn(6)]
		return &proto.WriteRequest{DeleteRanges: []*proto.DeleteRangeRequest{{StartInclusive: r[0], EndExclusive: r[1]}}}
	}},
	{"odd-keys", func(g *Rng, _ *advState) *proto.WriteRequest {
		k := []string{"", "/", "//", "a//b", "-", "a-", strings.Repeat("k", 70000), "\x00", "a\x00b", "é/中", "a/" + strings.Repeat("/", 300)}[g.Intn(11)]
		req := &proto.WriteRequest{Puts: []*proto.PutRequest{advPut(k)}}
		if g.Chance(40) {
			req.Deletes = []*proto.DeleteRequest{{Key: k}}
		}
		return req
	}},
	{"odd-versions", func(g *Rng, _ *advState) *proto.WriteRequest {
		v := []int64{-2, -1000, 1 << 62, -1 << 63}[g.Intn(4)]
		return &proto.WriteRequest{Puts: []*proto.PutRequest{{Key: "a", Value: []byte("v"), ExpectedVersionId: &v}}, Deletes: []*proto.DeleteRequest{{Key: "b", ExpectedVersionId: &v}}}
	}},
	{"odd-sessions", func(g *Rng, st *advState) *proto.WriteRequest {
		id := []int64{0, -1, 1 << 62, 424242}[g.Intn(4)]
		if len(st.sessions) > 0 && g.Chance(40) {
			id = st.sessions[g.Intn(len(st.sessions))]
		}
		return &proto.WriteRequest{Puts: []*proto.PutRequest{{Key: advKeys[g.Intn(5)], Value: []byte("v"), SessionId: &id, ClientIdentity: ptr("")}}}
	}},
	{"odd-indexes", func(g *Rng, _ *advState) *proto.WriteRequest {
		n := []string{"", "/", "a/b", "ix\x01", "__oxia/idx", strings.Repeat("i", 5000)}[g.Intn(6)]
		s := []string{"", "/", "s\x01p", "a/b/c", strings.Repeat("s", 70000)}[g.Intn(5)]
		return &proto.WriteRequest{Puts: []*proto.PutRequest{{Key: advKeys[g.Intn(5)], Value: []byte("v"), SecondaryIndexes: []*proto.SecondaryIndex{{IndexName: n, SecondaryKey: s}, {IndexName: n, SecondaryKey: s}}}}}
	}},
	{"same-key-many-times", func(g *Rng, _ *advState) *proto.WriteRequest {
		req := &proto.WriteRequest{}
		for i := 0; i < g.Range(2, 6); i++ {
			req.Puts = append(req.Puts, &proto.PutRequest{Key: "dup", Value: []byte{byte(i)}, ExpectedVersionId: ptr(int64(-1))})
		}
		req.Deletes = []*proto.DeleteRequest{{Key: "dup"}, {Key: "dup"}}
		req.DeleteRanges = []*proto.DeleteRangeRequest{{StartInclusive: "d", EndExclusive: "e"}}
		return req
	}},
	{"empty-and-big", func(g *Rng, _ *advState) *proto.WriteRequest {
		if g.Chance(30) {
			return &proto.WriteRequest{}
		}
		req := &proto.WriteRequest{}
		for i := 0; i < g.Range(100, 600); i++ {
			req.Puts = append(req.Puts, advPut(fmt.Sprintf("big/%04d", i)))
		}
		return req
	}},
}

func advBenign(g *Rng, i int) *proto.WriteRequest {
	return &proto.WriteRequest{Puts: []*proto.PutRequest{{Key: fmt.Sprintf("ok/%d", g.Intn(8)), Value: []byte(fmt.Sprintf("b%d", i))}}}
}

func runC13(r *Run) {
	c := &c06{r: r, names: []string{"n1", "n2", "n3"}, dirSeq: map[string]int{}, started: map[string]bool{"n1": true}, attached: map[string]bool{}, snapshotted: map[string]bool{}, prop: "C13"}
	// production segments (64 MiB) are far larger than the largest request the RPC layer lets
	// through; keep that relation (an entry that does not fit a whole segment is a different matter)
	wl := newW2(r, "c13", w2Opts{preStart: func(*World) { wal.DefaultFactoryOptions.SegmentSize = 1 << 20 }})
	defer wl.w.Close()
	c.wl, c.w = wl, wl.w
	g := wl.g
	// swarm: the categories of this run
	var cats []advCat
	for n := g.Range(1, 3); len(cats) < n; {
		ct := advCats[g.Intn(len(advCats))]
		dup := false
		for _, x := range cats {
			dup = dup || x.name == ct.name
		}
		if !dup {
			cats = append(cats, ct)
		}
	}
	var names []string
	for _, ct := range cats {
		names = append(names, ct.name)
	}
	r.Knobs["categories"] = strings.Join(names, ",")
	nops := g.Range(6, 30)
	if r.Tier == "thorough" {
		nops = g.Range(6, 80)
	}
	r.Knobs["plan_size"] = nops
	r.Sample = &wl.prog
	st := &advState{}
	var recent []string // categories of the unusual requests logged so far
	describe := func() string {
		if len(recent) == 0 {
			return "no unusual request logged before"
		}
		m := map[string]bool{}
		var u []string
		for _, x := range recent {
			if !m[x] {
				m[x] = true
				u = append(u, x)
			}
		}
		sort.Strings(u)
		return "unusual requests logged so far: " + strings.Join(u, ",")
	}
	// logged tells whether req is in the leader's log after offset `after`
	logged := func(req *proto.WriteRequest, after int64) (bool, int64) {
		v := wl.c.view()
		if v == nil || v.Wal == nil {
			return false, -1
		}
		ents, err := readLog(v.Wal, after)
		if err != nil {
			return false, -1
		}
		for _, e := range ents {
			ws, err := decodeEntry(e)
			if err != nil {
				continue
			}
			for _, w := range ws {
				if pb.Equal(w, req) {
					return true, e.Offset
				}
			}
		}
		return false, -1
	}
	head := func() int64 {
		if v := wl.c.view(); v != nil {
			return v.HeadOffset
		}
		return -1
	}
	send := func(req *proto.WriteRequest, cat string) bool {
		before := head()
		ctx, cancel := context.WithTimeout(context.Background(), 30*time.Second)
		defer cancel()
		req.Shard = &wl.c.shard
		resp, err := wl.c.client().Write(ctx, req)
		wl.prog = append(wl.prog, cat+":"+short(describeReq(req)))
		r.Count("requests_sent", 1)
		if err == nil {
			if len(resp.Puts) != len(req.Puts) || len(resp.Deletes) != len(req.Deletes) || len(resp.DeleteRanges) != len(req.DeleteRanges) {
				wl.fail("response-shape", "category %s: response has %d/%d/%d statuses for %d/%d/%d operations", cat, len(resp.Puts), len(resp.Deletes), len(resp.DeleteRanges), len(req.Puts), len(req.Deletes), len(req.DeleteRanges))
				return false
			}
			for _, p := range resp.Puts {
				if p.Status == proto.Status_OK && p.Key != nil {
					st.seqKeys = append(st.seqKeys, *p.Key)
				}
			}
			if cat != "ordinary" {
				recent = append(recent, cat)
				r.Count("unusual_requests_applied", 1)
			}
			return true
		}
		if in, off := logged(req, before); in {
			if cat == "ordinary" {
				wl.fail("ordinary-request-fails-after-unusual-one", "an ordinary put was logged at offset %d and failed to apply: %v (%s)", off, err, describe())
			} else {
				wl.fail("logged-request-fails-to-apply/"+cat, "category %s: request {%s} was accepted into the log at offset %d and its application failed with an infrastructure error: %v", cat, short(describeReq(req)), off, err)
			}
			return false
		}
		if cat == "ordinary" {
			wl.fail("ordinary-request-refused", "an ordinary put was refused: %v (%s)", err, describe())
			return false
		}
		r.Count("unusual_requests_refused_before_logging", 1)
		return true
	}
	followersCaughtUp := func(where string) bool {
		lv := wl.c.view()
		if lv == nil {
			return true
		}
		want := lv.CommitOffset - 1 // the last entry's commit is only learnt with the next append
		for i := 0; i < 300; i++ {
			lag := ""
			for n := range c.attached {
				if !c.live(n) {
					continue
				}
				v, ok := c.w.Node(n).Server.SimShardView(0)
				if !ok {
					continue
				}
				if v.CommitOffset < want {
					lag = fmt.Sprintf("follower %s has applied commit offset %d (log head %d), the leader %s committed %d", n, v.CommitOffset, v.HeadOffset, c.leader, lv.CommitOffset)
				}
			}
			if lag == "" {
				r.Count("follower_progress_checks", 1)
				return true
			}
			if i == 299 {
				wl.fail("follower-apply-stuck", "%s: 30 s after the leader committed, %s (%s)", where, lag, describe())
				return false
			}
			time.Sleep(100 * time.Millisecond)
		}
		return true
	}
	ok := wl.w.RunScript(wl.c.ctl, 6*time.Hour, func() {
		if !c.start("n2") || !c.start("n3") || !c.elect(g) {
			return
		}
		wl.failClassPrefix = ""
		for i := 0; i < nops && !r.Failed(); i++ {
			if !r.KeepItem(i) {
				continue
			}
			gi := NewRng(r.Seed, "c13op", i)
			k := gi.Intn(100)
			switch {
			case k < 55:
				ct := cats[gi.Intn(len(cats))]
				if !send(ct.gen(gi, st), ct.name) {
					return
				}
			case k < 70:
				if !send(advBenign(gi, i), "ordinary") {
					return
				}
			case k < 75:
				ctx, cancel := context.WithTimeout(context.Background(), 30*time.Second)
				res, err := wl.c.client().CreateSession(ctx, &proto.CreateSessionRequest{Shard: wl.c.shard, SessionTimeoutMs: 300000, ClientIdentity: "adv"})
				cancel()
				if err != nil {
					wl.fail("session-create-fails", "CreateSession failed: %v (%s)", err, describe())
					return
				}
				st.sessions = append(st.sessions, res.SessionId)
			case k < 83: // leader change: the new leader replays what it has not applied
				if !c.elect(gi) {
					r.violationSuffix(describe())
					return
				}
			case k < 92: // crash (unflushed engine state lost) + restart + election: full replay
				n := c.names[gi.Intn(3)]
				if !c.live(n) {
					continue
				}
				c.crashNode(n, gi.Chance(50))
				wl.prog = append(wl.prog, "crash "+n)
				if !c.start(n) || !c.elect(gi) {
					r.violationSuffix(describe())
					return
				}
				r.Count("crash_replays", 1)
			default:
				if !send(advBenign(gi, i), "ordinary") || !send(advBenign(gi, i+1000), "ordinary") || !followersCaughtUp(fmt.Sprintf("after op %d", i)) {
					return
				}
			}
		}
		if r.Failed() {
			return
		}
		// end of run: everything logged must be replayable by every node
		if !send(advBenign(g, 9000), "ordinary") || !send(advBenign(g, 9001), "ordinary") || !followersCaughtUp("end of run") {
			return
		}
		for _, n := range c.names {
			if c.live(n) {
				c.crashNode(n, false)
				if !c.start(n) {
					r.violationSuffix(describe())
					return
				}
			}
		}
		if !c.elect(g) {
			r.violationSuffix(describe())
			return
		}
		r.Count("final_full_replays", 1)
		if !send(advBenign(g, 9002), "ordinary") || !send(advBenign(g, 9003), "ordinary") {
			return
		}
		followersCaughtUp("after the final replay")
	})
	if !ok && !r.Failed() {
		r.Fail("stuck", "script did not finish: %s (%s)", lastOf(wl.prog), describe())
	}
	for _, n := range c.names {
		if c.live(n) {
			c.w.Node(n).Stop()
		}
	}
	r.Sig(strings.Join(wl.prog, ";"))
	if r.Stat("unusual_requests_applied") > 2 {
		r.Count("nontrivial", 1)
	}
}

func init() { registry["C13"] = runC13 }
