// Package oxsim: deterministic simulation harness for oxia (see /verif/DESIGN.md).
package oxsim

import (
	"encoding/binary"
	"encoding/json"
	"fmt"
	"hash/fnv"
	"io"
	"log/slog"
	"math"
	"os"
	"runtime"
	"runtime/debug"
	"sort"
	"strings"
	"sync"
	"testing"
	"testing/synctest"
	"time"
)

// ---------------------------------------------------------------- hashing / choices

func mix64(z uint64) uint64 {
	z += 0x9e3779b97f4a7c15
	z = (z ^ (z >> 30)) * 0xbf58476d1ce4e5b9
	z = (z ^ (z >> 27)) * 0x94d049bb133111eb
	return z ^ (z >> 31)
}

// H hashes a seed with a list of stable name parts. Every per-event decision of a run
// is H(seed, canonical id): independent of goroutine interleaving inside a step and
// stable when unrelated plan items are removed during minimisation.
func H(seed uint64, parts ...any) uint64 {
	h := fnv.New64a()
	var b [8]byte
	binary.LittleEndian.PutUint64(b[:], seed)
	h.Write(b[:])
	for _, p := range parts {
		switch v := p.(type) {
		case string:
			h.Write([]byte(v))
		case int:
			binary.LittleEndian.PutUint64(b[:], uint64(v))
			h.Write(b[:])
		case int64:
			binary.LittleEndian.PutUint64(b[:], uint64(v))
			h.Write(b[:])
		case uint64:
			binary.LittleEndian.PutUint64(b[:], v)
			h.Write(b[:])
		case uint32:
			binary.LittleEndian.PutUint64(b[:], uint64(v))
			h.Write(b[:])
		case int32:
			binary.LittleEndian.PutUint64(b[:], uint64(v))
			h.Write(b[:])
		case bool:
			if v {
				h.Write([]byte{1})
			} else {
				h.Write([]byte{0})
			}
		default:
			fmt.Fprintf(h, "%v", v)
		}
		h.Write([]byte{0xfe})
	}
	return mix64(h.Sum64())
}

// Rng is a splitmix64 stream used for *generation* (plans, workloads); per-event
// decisions use H directly.
type Rng struct{ s uint64 }

func NewRng(seed uint64, parts ...any) *Rng { return &Rng{H(seed, parts...)} }
func (r *Rng) U64() uint64 {
	r.s += 0x9e3779b97f4a7c15
	z := r.s
	z = (z ^ (z >> 30)) * 0xbf58476d1ce4e5b9
	z = (z ^ (z >> 27)) * 0x94d049bb133111eb
	return z ^ (z >> 31)
}
func (r *Rng) Intn(n int) int {
	if n <= 0 {
		return 0
	}
	return int(r.U64() % uint64(n))
}
func (r *Rng) Range(lo, hi int) int { // inclusive
	if hi <= lo {
		return lo
	}
	return lo + r.Intn(hi-lo+1)
}
func (r *Rng) Chance(pct int) bool    { return r.Intn(100) < pct }
func (r *Rng) F() float64             { return float64(r.U64()>>11) / float64(1<<53) }
func (r *Rng) Pick(n int) int         { return r.Intn(n) }
func (r *Rng) Bytes(n int) []byte     { b := make([]byte, n); for i := range b { b[i] = byte(r.U64()) }; return b }
func (r *Rng) Dur(lo, hi time.Duration) time.Duration {
	if hi <= lo {
		return lo
	}
	return lo + time.Duration(r.U64()%uint64(hi-lo))
}

// ---------------------------------------------------------------- run context

type Violation struct {
	Property string `json:"property"`
	Class    string `json:"class"` // stable violation class (used by minimiser / known findings)
	Msg      string `json:"msg"`
	Step     int64  `json:"step"`
	SimTime  string `json:"sim_time"`
}

func (v *Violation) Error() string { return fmt.Sprintf("%s [%s] %s", v.Property, v.Class, v.Msg) }

// Run is the context of one simulated execution.
type Run struct {
	T        *testing.T
	Prop     string
	Seed     uint64
	Tier     string
	Keep     map[int]bool // nil = keep all plan items (minimiser mask)
	Opts     map[string]string

	mu        sync.Mutex
	stats     map[string]int64
	log       []string
	logHash   uint64
	steps     int64
	violation *Violation
	Sample    any // a written-out example of what this run explored
	SigParts  []string
	start     time.Time
	Knobs     map[string]any
	Inconclusive string
	Post         []func() // run after the bubble has ended (real clock, no simulated goroutines)
	endSim       string
	abandoned    bool
	lastOp       string // what the workload was about to call (quoted when the call never returns)
}

func (r *Run) Count(name string, n int64) {
	r.mu.Lock()
	r.stats[name] += n
	r.mu.Unlock()
}
func (r *Run) Stat(name string) int64 {
	r.mu.Lock()
	defer r.mu.Unlock()
	return r.stats[name]
}

// Logf appends a line to the event log (never draws randomness, never reads a real clock).
func (r *Run) Logf(f string, a ...any) {
	s := fmt.Sprintf(f, a...)
	r.mu.Lock()
	r.steps++
	line := fmt.Sprintf("%06d t=%s %s", r.steps, r.simNow(), s)
	r.logHash = H(r.logHash, line)
	if len(r.log) >= logCap {
		r.log = r.log[1:]
	}
	r.log = append(r.log, line)
	r.mu.Unlock()
	if verbose {
		fmt.Fprintln(os.Stderr, line)
	}
}

func (r *Run) simNow() string {
	if r.endSim != "" {
		return r.endSim
	}
	return time.Since(r.start).String()
}
func (r *Run) Now() time.Duration { return time.Since(r.start) }

// Sig adds a part to the run's schedule signature (distinct_nontrivial accounting).
func (r *Run) Sig(s string) {
	r.mu.Lock()
	if len(r.SigParts) < 4096 {
		r.SigParts = append(r.SigParts, s)
	}
	r.mu.Unlock()
}

// Fail records the first violation of the run.
func (r *Run) Fail(class, f string, a ...any) {
	r.mu.Lock()
	defer r.mu.Unlock()
	if r.abandoned {
		// a node of this run is deadlocked in its shutdown (recorded as a diagnostic): what the oracles
		// see from here on is a consequence of that, not evidence about the property
		r.stats["alarms_after_abandon"]++
		return
	}
	if r.violation == nil {
		r.violation = &Violation{Property: r.Prop, Class: class, Msg: fmt.Sprintf(f, a...), Step: r.steps, SimTime: r.simNow()}
	}
}

// Abandon stops the run from recording violations from now on (what was recorded before stays).
func (r *Run) Abandon(why string) {
	r.mu.Lock()
	defer r.mu.Unlock()
	r.abandoned = true
	if r.Inconclusive == "" {
		r.Inconclusive = why
	}
}
// violationSuffix appends context to the recorded violation, if any.
func (r *Run) violationSuffix(s string) {
	r.mu.Lock()
	defer r.mu.Unlock()
	if r.violation != nil && !strings.Contains(r.violation.Msg, s) {
		r.violation.Msg += " (" + s + ")"
	}
}

func (r *Run) Failed() bool {
	r.mu.Lock()
	defer r.mu.Unlock()
	return r.violation != nil
}

// KeepItem tells whether plan item i survives the minimiser's mask.
func (r *Run) KeepItem(i int) bool { return r.Keep == nil || r.Keep[i] }

var verbose = os.Getenv("OXSIM_VERBOSE") != ""
var logCap = func() int {
	if os.Getenv("OXSIM_DUMPLOG") != "" {
		return 400000
	}
	return 4000
}()

// Result is what a worker reports per run.
type Result struct {
	Prop      string           `json:"prop"`
	Seed      uint64           `json:"seed"`
	OK        bool             `json:"ok"`
	Violation *Violation       `json:"violation,omitempty"`
	Panic     string           `json:"panic,omitempty"`
	Stats     map[string]int64 `json:"stats"`
	LogHash   string           `json:"log_hash"`
	Sig       string           `json:"sig"`
	Steps     int64            `json:"steps"`
	SimNanos  int64            `json:"sim_ns"`
	WallMs    float64          `json:"wall_ms"`
	Sample    any              `json:"sample,omitempty"`
	LogTail   []string         `json:"log_tail,omitempty"`
	Keep      []int            `json:"keep,omitempty"`
	PlanSize  int              `json:"plan_size,omitempty"`
	Inconclusive string        `json:"inconclusive,omitempty"`
	Knobs     map[string]any   `json:"knobs,omitempty"`
}

// ExecBubble runs body inside a fresh synctest bubble with the seeded runtime.
func ExecBubble(t *testing.T, prop string, seed uint64, tier string, keep map[int]bool, opts map[string]string, body func(r *Run)) *Result {
	r := &Run{T: t, Prop: prop, Seed: seed, Tier: tier, Keep: keep, Opts: opts, stats: map[string]int64{}, Knobs: map[string]any{}}
	wall := time.Now()
	res := &Result{Prop: prop, Seed: seed}
	// The collector preempts goroutines and reshuffles the run queue at moments that depend on
	// the heap left behind by earlier runs.  Collect between runs, never during one.
	runtime.GC()
	oldGC := debug.SetGCPercent(-1)
	defer debug.SetGCPercent(oldGC)
	bodyDone := false
	func() {
		defer func() {
			if p := recover(); p != nil {
				s := fmt.Sprint(p)
				if strings.Contains(s, "deadlock: all goroutines in bubble are blocked") || strings.Contains(s, "deadlock: main bubble goroutine has exited") {
					// leftover goroutines of the system under test at the end of the bubble
					r.Count("bubble_end_blocked", 1)
					if !bodyDone {
						// ... or the workload itself never finished: a call into the system under
						// test blocks for ever with no timer pending
						r.Fail("stuck", "the run deadlocked before the workload finished: a call into the system under test never returned and no timer was pending (%s)", r.lastOp)
					}
					return
				}
				buf := make([]byte, 16384)
				n := runtime.Stack(buf, false)
				res.Panic = s + "\n" + string(buf[:n])
			}
		}()
		synctest.Test(t, func(t *testing.T) {
			runtime.SetSimSeed(H(seed, "runtime") | 1)
			runtime.SetSimPath(H(seed, "root"))
			r.start = time.Now()
			r.T = t
			func() {
				defer func() {
					if p := recover(); p != nil {
						buf := make([]byte, 16384)
						n := runtime.Stack(buf, false)
						res.Panic = fmt.Sprint(p) + "\n" + string(buf[:n])
					}
				}()
				body(r)
				bodyDone = true
			}()
			res.SimNanos = int64(time.Since(r.start))
			r.endSim = time.Since(r.start).String()
		})
	}()
	// post-run checks are ordinary Go code on the real clock: give them the ordinary scheduler
	// (timeouts of a CPU-bound search need sysmon's preemption)
	runtime.SetSimSeed(0)
	if res.Panic == "" {
		if r.endSim == "" {
			r.endSim = "end"
		}
		func() {
			defer func() {
				if p := recover(); p != nil {
					buf := make([]byte, 16384)
					n := runtime.Stack(buf, false)
					res.Panic = "post-run check: " + fmt.Sprint(p) + "\n" + string(buf[:n])
				}
			}()
			for _, f := range r.Post {
				f()
			}
		}()
	}
	runtime.SetSimSeed(0)
	res.WallMs = float64(time.Since(wall).Microseconds()) / 1000
	res.Stats = r.stats
	res.LogHash = fmt.Sprintf("%016x", r.logHash)
	res.Steps = r.steps
	res.Violation = r.violation
	res.OK = r.violation == nil && res.Panic == ""
	res.Sample = r.Sample
	res.Knobs = r.Knobs
	res.Inconclusive = r.Inconclusive
	sp := append([]string(nil), r.SigParts...)
	res.Sig = fmt.Sprintf("%016x", H(0, strings.Join(sp, "|")))
	if sutMem != nil {
		sutMem.mu.Lock()
		if !res.OK {
			if f, err := os.Create(fmt.Sprintf("/tmp/sutlog-%s-%d.txt", prop, seed)); err == nil {
				f.WriteString(strings.Join(sutMem.buf, "\n"))
				f.Close()
			}
		}
		sutMem.buf = nil
		sutMem.mu.Unlock()
	}
	if d := os.Getenv("OXSIM_DUMPLOG"); d != "" && d == fmt.Sprint(seed) {
		_ = os.WriteFile(fmt.Sprintf("/tmp/evlog-%s-%d.txt", prop, seed), []byte(strings.Join(r.log, "\n")), 0o644)
	}
	if !res.OK || verbose {
		n := len(r.log)
		if n > 400 {
			n = 400
		}
		res.LogTail = append([]string(nil), r.log[len(r.log)-n:]...)
	}
	return res
}

// memLog captures the system's log in memory (no syscalls, so the schedule is not perturbed).
type memLog struct {
	mu  sync.Mutex
	buf []string
}

func (m *memLog) Write(p []byte) (int, error) {
	m.mu.Lock()
	if len(m.buf) > 20000 && os.Getenv("OXSIM_DUMPLOG") == "" {
		m.buf = m.buf[10000:]
	}
	m.buf = append(m.buf, strings.TrimRight(string(p), "\n"))
	m.mu.Unlock()
	return len(p), nil
}

var sutMem *memLog

func init() {
	// oxia logs through slog and zerolog; keep the simulator quiet and fast.
	if os.Getenv("OXSIM_SUTLOG") == "mem" {
		sutMem = &memLog{}
		slog.SetDefault(slog.New(slog.NewTextHandler(sutMem, &slog.HandlerOptions{Level: slog.LevelInfo})))
		return
	}
	if os.Getenv("OXSIM_SUTLOG") == "" {
		slog.SetDefault(slog.New(slog.NewTextHandler(io.Discard, &slog.HandlerOptions{Level: slog.Level(math.MaxInt32)})))
	} else {
		slog.SetDefault(slog.New(slog.NewTextHandler(os.Stderr, &slog.HandlerOptions{Level: slog.LevelDebug})))
	}
}

func sortedKeys[V any](m map[string]V) []string {
	ks := make([]string, 0, len(m))
	for k := range m {
		ks = append(ks, k)
	}
	sort.Strings(ks)
	return ks
}

func jsonStr(v any) string { b, _ := json.Marshal(v); return string(b) }
