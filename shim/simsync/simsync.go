// Package simsync is an overlay-only replacement for the "sync" import of oxia's own
// packages (oxsim, DESIGN.md §3.2 S2).  Mutex and RWMutex park contended waiters on a
// channel, which is durably blocking inside a testing/synctest bubble (a sync.Mutex
// wait is not), and every Lock/RLock is a potential yield point chosen by the
// simulator.  Everything else aliases the real package.
package simsync

import (
	"runtime"
	"sync"
)

type (
	WaitGroup = sync.WaitGroup
	Once      = sync.Once
	Cond      = sync.Cond
	Pool      = sync.Pool
	Map       = sync.Map
	Locker    = sync.Locker
)

func NewCond(l Locker) *Cond { return sync.NewCond(l) }

func OnceFunc(f func()) func()                         { return sync.OnceFunc(f) }
func OnceValue[T any](f func() T) func() T             { return sync.OnceValue(f) }
func OnceValues[T1, T2 any](f func() (T1, T2)) func() (T1, T2) { return sync.OnceValues(f) }

// YieldHook, when set, is called before every Lock/RLock with the program counter of
// the caller of Lock/RLock.  It may block (fake-time sleep) to open a race window.
var YieldHook func(pc uintptr)

func yield() {
	if h := YieldHook; h != nil {
		var pcs [1]uintptr
		if runtime.Callers(3, pcs[:]) == 1 {
			h(pcs[0])
		}
	}
}

// Mutex is a FIFO hand-off mutex.
type Mutex struct {
	mu      sync.Mutex
	locked  bool
	waiters []chan struct{}
}

func (m *Mutex) Lock() {
	yield()
	m.lock()
}

func (m *Mutex) lock() {
	m.mu.Lock()
	if !m.locked {
		m.locked = true
		m.mu.Unlock()
		return
	}
	ch := make(chan struct{})
	m.waiters = append(m.waiters, ch)
	m.mu.Unlock()
	<-ch
}

func (m *Mutex) TryLock() bool {
	m.mu.Lock()
	defer m.mu.Unlock()
	if m.locked {
		return false
	}
	m.locked = true
	return true
}

func (m *Mutex) Unlock() {
	m.mu.Lock()
	if !m.locked {
		m.mu.Unlock()
		panic("simsync: unlock of unlocked mutex")
	}
	if len(m.waiters) > 0 {
		ch := m.waiters[0]
		m.waiters = m.waiters[1:]
		m.mu.Unlock()
		close(ch) // ownership handed to the waiter; locked stays true
		return
	}
	m.locked = false
	m.mu.Unlock()
}

// RWMutex: writer-preferring (like sync.RWMutex: a waiting writer blocks new readers).
type RWMutex struct {
	mu      sync.Mutex
	writer  bool
	readers int
	queue   []rwWaiter
}

type rwWaiter struct {
	ch    chan struct{}
	write bool
}

func (m *RWMutex) Lock() {
	yield()
	m.mu.Lock()
	if !m.writer && m.readers == 0 && len(m.queue) == 0 {
		m.writer = true
		m.mu.Unlock()
		return
	}
	ch := make(chan struct{})
	m.queue = append(m.queue, rwWaiter{ch, true})
	m.mu.Unlock()
	<-ch
}

func (m *RWMutex) TryLock() bool {
	m.mu.Lock()
	defer m.mu.Unlock()
	if !m.writer && m.readers == 0 && len(m.queue) == 0 {
		m.writer = true
		return true
	}
	return false
}

func (m *RWMutex) RLock() {
	yield()
	m.mu.Lock()
	if !m.writer && len(m.queue) == 0 {
		m.readers++
		m.mu.Unlock()
		return
	}
	ch := make(chan struct{})
	m.queue = append(m.queue, rwWaiter{ch, false})
	m.mu.Unlock()
	<-ch
}

func (m *RWMutex) TryRLock() bool {
	m.mu.Lock()
	defer m.mu.Unlock()
	if !m.writer && len(m.queue) == 0 {
		m.readers++
		return true
	}
	return false
}

// grant wakes the head of the queue: one writer, or a run of readers. mu held.
func (m *RWMutex) grant() {
	if m.writer || len(m.queue) == 0 {
		return
	}
	if m.queue[0].write {
		if m.readers == 0 {
			w := m.queue[0]
			m.queue = m.queue[1:]
			m.writer = true
			close(w.ch)
		}
		return
	}
	for len(m.queue) > 0 && !m.queue[0].write {
		w := m.queue[0]
		m.queue = m.queue[1:]
		m.readers++
		close(w.ch)
	}
}

func (m *RWMutex) Unlock() {
	m.mu.Lock()
	if !m.writer {
		m.mu.Unlock()
		panic("simsync: Unlock of unlocked RWMutex")
	}
	m.writer = false
	m.grant()
	m.mu.Unlock()
}

func (m *RWMutex) RUnlock() {
	m.mu.Lock()
	if m.readers <= 0 {
		m.mu.Unlock()
		panic("simsync: RUnlock of unlocked RWMutex")
	}
	m.readers--
	m.grant()
	m.mu.Unlock()
}

type rlocker RWMutex

func (r *rlocker) Lock()   { (*RWMutex)(r).RLock() }
func (r *rlocker) Unlock() { (*RWMutex)(r).RUnlock() }

func (m *RWMutex) RLocker() Locker { return (*rlocker)(m) }
