package oxsim

// Property runners on top of the chaos engine: C01, C03, C04, C05 (C02 in c02_linearizability.go).

import (
	"fmt"
	"sort"
	"strings"
	"time"

	"github.com/oxia-db/oxia/server/wal"

	"github.com/oxia-db/oxia/proto"
)

func chaosSizes(r *Run, g *Rng) (clients, ops, faults int, window time.Duration) {
	clients = g.Range(2, 4)
	ops = g.Range(10, 40)
	faults = g.Range(1, 6)
	window = time.Duration(g.Range(20, 90)) * time.Second
	if r.Tier == "thorough" {
		ops = g.Range(10, 100)
		faults = g.Range(1, 12)
		window = time.Duration(g.Range(20, 240)) * time.Second
	}
	return
}

// finalChecks: after the heal phase every shard's leader holds every acknowledged write,
// its DB equals the fold of its log, and replicas that reached the same commit offset
// hold identical state.
func (c *chaos) finalChecks() {
	r := c.r
	if r.Opts["monitors"] == "off" {
		return
	}
	for s := int64(0); s < int64(c.o.Shards); s++ {
		views := c.w.ShardViews(s)
		var names []string
		for n := range views {
			names = append(names, n)
		}
		sort.Strings(names)
		var leader *shardView
		lname := ""
		for _, n := range names {
			v := views[n]
			if v.IsLeader && v.Status == int32(proto.ServingStatus_LEADER) && (leader == nil || v.Term > leader.Term) {
				leader, lname = v, n
			}
		}
		if leader == nil {
			// an election is in progress at the very end (e.g. a swap still running): not a
			// safety violation; end-state oracles are skipped for this shard
			r.Count("final_no_leader", 1)
			continue
		}
		c.mon.mu.Lock()
		c.mon.checkContainment(s, lname, leader, "after the heal phase")
		c.mon.mu.Unlock()
		if r.Failed() {
			return
		}
		// DB == fold(log) on the leader (only when the log still starts at 0)
		if leader.Wal.FirstOffset() <= 0 {
			ents, err := readLog(leader.Wal, -1)
			if err != nil {
				r.Fail("log-read-error", "%v", err)
				return
			}
			m := newRefDB(s)
			for _, e := range ents {
				if e.Offset > leader.CommitOffset {
					break
				}
				ws, err := decodeEntry(e)
				if err != nil {
					r.Fail("log-decode-error", "%v", err)
					return
				}
				for _, wr := range ws {
					m.Apply(wr, e.Offset, e.Timestamp)
				}
			}
			dump, err := dumpDB(leader.DB)
			if err != nil {
				r.Fail("dump-error", "%v", err)
				return
			}
			if msg := m.compareDump(dump, false); msg != "" {
				r.Fail(propClass(c.o.Prop, "C07", "leader-state-not-fold-of-log"), "shard %d leader %s (term %d, commit %d): %s%s", s, lname, leader.Term, leader.CommitOffset, msg, c.mon.electionFacts(s)+c.mon.swapNote())
				return
			}
			r.Count("final_state_checks", 1)
		}
		// pairwise log agreement up to the smaller commit offset, and equal state at equal commit offsets
		for _, n := range names {
			v := views[n]
			if n == lname || v.Wal == nil {
				continue
			}
			upTo := v.CommitOffset
			if leader.CommitOffset < upTo {
				upTo = leader.CommitOffset
			}
			if msg := compareLogs(leader.Wal, v.Wal, -1, upTo); msg != "" {
				r.Fail(propClass(c.o.Prop, "C03", "committed-logs-diverge"), "shard %d: leader %s and replica %s: %s (commit offsets %d / %d)%s", s, lname, n, msg, leader.CommitOffset, v.CommitOffset, c.mon.electionFacts(s)+c.mon.swapNote())
				return
			}
			if v.CommitOffset == leader.CommitOffset && v.DB != nil {
				if msg := compareReplicaDumps(leader.DB, v.DB); msg != "" {
					lco, _ := leader.DB.ReadCommitOffset()
					fco, _ := v.DB.ReadCommitOffset()
					r.Fail(propClass(c.o.Prop, "C06", "replica-state-differs"), "shard %d: leader %s and replica %s at commit offset %d: %s; leader log %s (db commit %d), replica log %s (db commit %d, status %d, term %d); entries touching the key: %s",
						s, lname, n, v.CommitOffset, msg, termsOf(leader.Wal), lco, termsOf(v.Wal), fco, v.Status, v.Term, entriesTouching(leader.Wal, msg)+c.mon.electionFacts(s)+c.mon.swapNote())
					return
				}
				r.Count("replica_state_compared", 1)
			}
		}
	}
}

func propClass(running, owner, class string) string {
	if running == owner {
		return class
	}
	return owner + ":" + class
}

func runChaosProp(r *Run, prop string, tune func(o *chaosOpts, g *Rng)) {
	runChaosPropWith(r, prop, tune, nil)
}

func runChaosPropWith(r *Run, prop string, tune func(o *chaosOpts, g *Rng), got func(c *chaos)) {
	g := NewRng(r.Seed, "sizes", prop)
	clients, ops, faults, window := chaosSizes(r, g)
	o := chaosOpts{Prop: prop, Nodes: 3, RF: 3, Shards: uint32(g.Range(1, 2)), Clients: clients, OpsPerClient: ops, Keys: g.Range(3, 8),
		Faults: faults, Window: window, Crash: true, PowerLoss: true, Partition: true, CoordCrash: true, BreakStreams: true,
		NetLoss: g.Chance(50), MetaFail: g.Chance(30), Yields: g.Chance(70)}
	if g.Chance(25) {
		o.Nodes, o.RF = 5, 5
	}
	if tune != nil {
		tune(&o, g)
	}
	r.Knobs["plan_size"] = o.Faults
	r.Knobs["leader_hunt"] = o.LeaderHunt
	r.Knobs["term_store_err_pct"] = o.TermStoreErrPct
	c := newChaos(r, o)
	defer c.finish()
	if got != nil {
		got(c)
	}
	if c.run() {
		c.finalChecks()
	}
	r.Knobs["faults"] = fmt.Sprint(c.plan)
}

func runC01(r *Run) {
	runChaosProp(r, "C01", func(o *chaosOpts, g *Rng) {
		if hg := NewRng(r.Seed, "leader-hunt"); hg.Chance(20) {
			o.LeaderHunt = hg.Range(1, 4)
		}
		o.WriteHeavy = true
		o.Swap = g.Chance(35)
	})
}

func runC03(r *Run) {
	runChaosProp(r, "C03", func(o *chaosOpts, g *Rng) {
		if hg := NewRng(r.Seed, "leader-hunt"); hg.Chance(20) {
			o.LeaderHunt = hg.Range(1, 4)
		}
		o.WriteHeavy = true
		o.TriggerFence = g.Chance(50)
		o.CoordCrash = g.Chance(30)
		o.Yields = true
	})
}

func runC04(r *Run) {
	runChaosProp(r, "C04", func(o *chaosOpts, g *Rng) {
		if tg := NewRng(r.Seed, "term-store"); tg.Chance(15) {
			o.TermStoreErrPct = tg.Range(10, 40)
		}
		if hg := NewRng(r.Seed, "leader-hunt"); hg.Chance(20) {
			o.LeaderHunt = hg.Range(1, 4)
		}
		o.WriteHeavy = true
		o.Yields = true
		o.TriggerFence = true
		o.FencePressure = true
		o.Faults = g.Range(3, 8)
		o.Clients = g.Range(3, 6)
		o.CoordCrash = true // a restarted coordinator re-elects over a healthy, busy leader
		o.NetLoss = false
	})
}

func runC05(r *Run) {
	runChaosProp(r, "C05", func(o *chaosOpts, g *Rng) {
		if tg := NewRng(r.Seed, "term-store"); tg.Chance(15) {
			o.TermStoreErrPct = tg.Range(10, 40)
		}
		if hg := NewRng(r.Seed, "leader-hunt"); hg.Chance(20) {
			o.LeaderHunt = hg.Range(1, 4)
		}
		o.OpsPerClient = g.Range(3, 12)
		o.Faults = g.Range(3, 10)
		o.CoordCrash = true
		o.MetaFail = g.Chance(60)
		o.Swap = g.Chance(60)
	})
}

func init() {
	registry["C01"] = runC01
	registry["C03"] = runC03
	registry["C04"] = runC04
	registry["C05"] = runC05
}

// entriesTouching lists log entries that mention the key quoted in a diff message.
func entriesTouching(w interface{}, msg string) string {
	wl, ok := w.(interface {
		FirstOffset() int64
	})
	_ = wl
	if !ok {
		return ""
	}
	i := strings.IndexByte(msg, '"')
	j := strings.IndexByte(msg[i+1:], '"')
	if i < 0 || j < 0 {
		return ""
	}
	key := msg[i+1 : i+1+j]
	ww, ok := w.(wal.Wal)
	if !ok {
		return ""
	}
	ents, _ := readLog(ww, -1)
	var out []string
	for _, e := range ents {
		ws, err := decodeEntry(e)
		if err != nil {
			continue
		}
		for _, wr := range ws {
			for _, p := range wr.Puts {
				if p.Key == key {
					out = append(out, fmt.Sprintf("%d:put", e.Offset))
				}
			}
			for _, d := range wr.Deletes {
				if d.Key == key {
					out = append(out, fmt.Sprintf("%d:del", e.Offset))
				}
			}
			for _, d := range wr.DeleteRanges {
				if refCompare(key, d.StartInclusive) >= 0 && refCompare(key, d.EndExclusive) < 0 {
					out = append(out, fmt.Sprintf("%d:delrange", e.Offset))
				}
			}
		}
	}
	return strings.Join(out, " ")
}
