#!/bin/bash
# Applies every seeded defect in turn, runs the check of its property (sizes below), reverts, and
# records what was reported in seeded/MATRIX.txt and in each seeded/<id>/meta.json (detected_by).
cd /verif
out=seeded/MATRIX.txt
[ $# -eq 0 ] && : > $out
declare -A ARGS=( [C01]="--seeds 3000 --budget 300" [C02]="--seeds 3000 --budget 300" [C03]="--seeds 3000 --budget 300" [C04]="--seeds 3000 --budget 300"
 [C05]="--seeds 3000 --budget 300" [C08]="--seeds 6000 --budget 300" [C12]="--seeds 6000 --budget 300" [C13]="--seeds 3000 --budget 300" [C03b]="--seeds 3000 --budget 400"
 [C01c]="--seeds 3000 --budget 300" [C03c]="--seeds 3000 --budget 300" [C04c]="--seeds 3000 --budget 300" [C05c]="--seeds 3000 --budget 300" [C12c]="--seeds 6000 --budget 300" [C01d]="--seeds 3000 --budget 300" [C02d]="--seeds 3000 --budget 300" [C04d]="--seeds 3000 --budget 300" [C12d]="--seeds 6000 --budget 300" [C03d]="--seeds 3000 --budget 300" [C05d]="--seeds 3000 --budget 300" [C08d]="--seeds 6000 --budget 300" )
# a change seeded against one property may only be visible to the check of another one: tried when the own check stays quiet
declare -A ALT=( [C02c]="C12 --seeds 6000 --budget 300" [C05c]="C18 --seeds 2400 --budget 400" [C01c]="C03 --seeds 3000 --budget 300" )
for id in ${@:-$(ls seeded | grep '^C')}; do
  git -C /repo diff --quiet || { echo "repo dirty"; exit 2; }
  git -C /repo apply /verif/seeded/$id/patch.diff || { echo "$id: patch does not apply" | tee -a $out; continue; }
  prop=${id:0:3}
  log=$(./check $prop quick ${ARGS[$id]:-} 2>&1)
  rc=$?
  used="$prop quick ${ARGS[$id]:-}"
  if [ $rc -ne 1 ] && [ -n "${ALT[$id]:-}" ]; then
    set -- ${ALT[$id]}; ap=$1; shift
    log=$(./check $ap quick "$@" 2>&1); rc=$?
    used="$ap quick $*"
  fi
  git -C /repo checkout -- .
  first=$(echo "$log" | grep "class=" | head -3 | cut -c1-260)
  runs=$(echo "$log" | grep "runs in" | tail -1)
  echo "== $id rc=$rc ($used) :: $runs" | tee -a $out
  echo "$first" | tee -a $out
  python3 - "$id" "$rc" "$first" "$used" <<'PY'
import json,sys,re
i,rc,first,used=sys.argv[1:5]
p=f'/verif/seeded/{i}/meta.json'
m=json.load(open(p))
classes=re.findall(r'class=(\S+)',first)
m['detected_by']=[{"check":f"./check {used}".strip(),"exit":int(rc),"violation_classes":classes}] if rc=='1' else []
json.dump(m,open(p,'w'),indent=1)
PY
done
