package oxsim

// W1: the real coordinator plus real storage nodes on the simulated transport.

import (
	"context"
	"errors"
	"fmt"
	"io"
	"path/filepath"
	"sort"
	"sync"
	"time"

	"google.golang.org/grpc/codes"
	"google.golang.org/grpc/status"

	commonrpc "github.com/oxia-db/oxia/common/rpc"
	"github.com/oxia-db/oxia/coordinator"
	"github.com/oxia-db/oxia/coordinator/metadata"
	"github.com/oxia-db/oxia/coordinator/model"
	coordrpc "github.com/oxia-db/oxia/coordinator/rpc"
	"github.com/oxia-db/oxia/proto"
)

// ---------------------------------------------------------------- metadata store

// simMeta is the coordinator's durable metadata medium.  It survives coordinator crashes,
// records every successful Store (the observation point of C05/C18/C19), can fail or
// delay operations, and rejects a crashed incarnation.
type simMeta struct {
	mu      sync.Mutex
	r       *Run
	cs      *model.ClusterStatus
	version int64
	Stores  []*model.ClusterStatus // history of successful stores
	OnStore func(n int, cs *model.ClusterStatus)
	FailPct int // percent of Store calls that fail (hash chosen)
	DelayMax time.Duration
	calls   int64
}

type simMetaHandle struct {
	m  *simMeta
	ep *Endpoint
}

var errMetaUnavailable = errors.New("oxsim: metadata store unavailable (injected)")
var errMetaFenced = errors.New("oxsim: metadata store: client incarnation is gone")

func (h *simMetaHandle) Close() error { return nil }

// gone blocks forever: a crashed coordinator incarnation never gets an answer from the
// metadata store (returning an error instead would make the zombie panic in oxia's retry
// path, which logs through a nil logger).
func gone() { <-make(chan struct{}) }

func (h *simMetaHandle) Get() (*model.ClusterStatus, metadata.Version, error) {
	if h.ep.Dead() {
		gone()
	}
	m := h.m
	m.mu.Lock()
	defer m.mu.Unlock()
	if m.cs == nil {
		return nil, metadata.NotExists, nil
	}
	return m.cs.Clone(), metadata.Version(fmt.Sprint(m.version)), nil
}

func (h *simMetaHandle) Store(cs *model.ClusterStatus, expected metadata.Version) (metadata.Version, error) {
	m := h.m
	m.mu.Lock()
	m.calls++
	n := m.calls
	m.mu.Unlock()
	if m.DelayMax > 0 {
		time.Sleep(time.Duration(H(m.r.Seed, "meta-delay", n)%uint64(m.DelayMax)) + 1)
	}
	if h.ep.Dead() {
		gone()
	}
	if m.FailPct > 0 && int(H(m.r.Seed, "meta-fail", n)%100) < m.FailPct {
		m.r.Count("meta_store_failed", 1)
		return "", errMetaUnavailable
	}
	m.mu.Lock()
	cur := metadata.NotExists
	if m.cs != nil {
		cur = metadata.Version(fmt.Sprint(m.version))
	}
	if expected != cur {
		m.mu.Unlock()
		return "", metadata.ErrMetadataBadVersion
	}
	m.cs = cs.Clone()
	m.version++
	m.Stores = append(m.Stores, cs.Clone())
	idx := len(m.Stores)
	v := metadata.Version(fmt.Sprint(m.version))
	f := m.OnStore
	m.mu.Unlock()
	m.r.Count("meta_stores", 1)
	if f != nil {
		f(idx, cs.Clone())
	}
	return v, nil
}

func (m *simMeta) Current() *model.ClusterStatus {
	m.mu.Lock()
	defer m.mu.Unlock()
	if m.cs == nil {
		return nil
	}
	return m.cs.Clone()
}

// ---------------------------------------------------------------- coordinator incarnation

type SimCoordinator struct {
	W     *World
	EP    *Endpoint
	C     coordinator.Coordinator
	Ready chan struct{}
	Err   error
	cfgCh chan any
}

type Cluster struct {
	W      *World
	Meta   *simMeta
	cfgMu  sync.Mutex
	Config model.ClusterConfig
	Coord  *SimCoordinator
	NodeNames []string
	nodeDirSeq map[string]int
}

// serverOf: no Name pointer on purpose.  model.Server is used as a map key inside the
// coordinator; a pointer field would make map iteration (and with it the leader choice among
// equal candidates) depend on heap addresses, i.e. on what ran earlier in the process.
func serverOf(name string) model.Server {
	return model.Server{Public: nodePublic(name), Internal: nodeInternal(name)}
}

func NewCluster(w *World, nodes []string, namespaces []model.NamespaceConfig) *Cluster {
	c := &Cluster{W: w, Meta: &simMeta{r: w.R}, NodeNames: nodes, nodeDirSeq: map[string]int{}}
	for _, n := range nodes {
		c.Config.Servers = append(c.Config.Servers, serverOf(n))
	}
	c.Config.Namespaces = namespaces
	return c
}

func (c *Cluster) nodeDir(name string) string {
	c.nodeDirSeq[name]++
	return filepath.Join(c.W.Root, fmt.Sprintf("%s-d%d", name, c.nodeDirSeq[name]))
}

// StartNodes starts every configured storage node on a fresh directory.
func (c *Cluster) StartNodes() {
	for _, n := range c.NodeNames {
		c.W.StartNode(n, c.nodeDir(n), nil)
	}
}

// StartCoordinator launches a coordinator incarnation; creation blocks on node health
// checks, so it proceeds while the dispatcher runs.
func (c *Cluster) StartCoordinator() *SimCoordinator {
	sc := &SimCoordinator{W: c.W, Ready: make(chan struct{}), cfgCh: make(chan any, 16)}
	sc.EP = c.W.Endpoint("coord")
	c.Coord = sc
	sc.EP.Go(func() {
		defer close(sc.Ready)
		pool := commonrpc.NewClientPool(nil, nil)
		provider := coordrpc.NewRpcProvider(pool)
		co, err := coordinator.NewCoordinator(&simMetaHandle{c.Meta, sc.EP},
			func() (model.ClusterConfig, error) {
				c.cfgMu.Lock()
				defer c.cfgMu.Unlock()
				return cloneConfig(c.Config), nil
			}, sc.cfgCh, provider)
		sc.C, sc.Err = co, err
		if err != nil {
			c.W.R.Logf("coordinator failed to start: %v", err)
		} else {
			c.W.R.Logf("coordinator %s started", sc.EP)
		}
	})
	return sc
}

func cloneConfig(cfg model.ClusterConfig) model.ClusterConfig {
	out := model.ClusterConfig{}
	out.Namespaces = append(out.Namespaces, cfg.Namespaces...)
	out.Servers = append(out.Servers, cfg.Servers...)
	if cfg.ServerMetadata != nil {
		out.ServerMetadata = map[string]model.ServerMetadata{}
		for k, v := range cfg.ServerMetadata {
			out.ServerMetadata[k] = v
		}
	}
	return out
}

// SetConfig installs a new cluster config and notifies the coordinator.
func (c *Cluster) SetConfig(cfg model.ClusterConfig) {
	c.cfgMu.Lock()
	c.Config = cfg
	c.cfgMu.Unlock()
	if c.Coord != nil {
		select {
		case c.Coord.cfgCh <- struct{}{}:
		default:
		}
	}
}

// CrashCoordinator kills the coordinator incarnation (its goroutines are drained in the
// background; the metadata handle rejects it from now on).
func (c *Cluster) CrashCoordinator() {
	sc := c.Coord
	if sc == nil {
		return
	}
	c.W.Net.Kill(sc.EP)
	c.W.R.Logf("crash %s", sc.EP)
	co := sc.C
	if co != nil {
		sc.EP.Go(func() { _ = co.Close() })
	}
	c.Coord = nil
}

// ---------------------------------------------------------------- simulated client

// SimClient issues operations against shard leaders the way the real client does at the
// service boundary: it learns assignments from a node and sends each request once.
type SimClient struct {
	W    *World
	EP   *Endpoint
	Name string
	mu   sync.Mutex
	leaders map[int64]string // shard -> public address
	ns   string
	cancelAssign context.CancelFunc
	assignSeq int
}

func (w *World) NewClient(name, ns string) *SimClient {
	return &SimClient{W: w, EP: w.Endpoint(name), Name: name, leaders: map[int64]string{}, ns: ns}
}

// FollowAssignments keeps a GetShardAssignments stream open against the given nodes (in turn).
func (c *SimClient) FollowAssignments(nodes []string) {
	ctx, cancel := context.WithCancel(context.Background())
	c.cancelAssign = cancel
	c.EP.Go(func() {
		i := 0
		for ctx.Err() == nil {
			node := nodes[i%len(nodes)]
			i++
			cl := proto.NewOxiaClientClient(c.W.Net.Dial(c.EP, nodePublic(node)))
			st, err := cl.GetShardAssignments(ctx, &proto.ShardAssignmentsRequest{Namespace: c.ns})
			if err == nil {
				for {
					sa, err := st.Recv()
					if err != nil {
						break
					}
					c.mu.Lock()
					if nsa, ok := sa.Namespaces[c.ns]; ok {
						for _, a := range nsa.Assignments {
							c.leaders[a.Shard] = a.Leader
						}
					}
					c.mu.Unlock()
				}
			}
			select {
			case <-ctx.Done():
				return
			case <-time.After(500 * time.Millisecond):
			}
		}
	})
}

func (c *SimClient) Stop() {
	if c.cancelAssign != nil {
		c.cancelAssign()
	}
}

func (c *SimClient) Leader(shard int64) string {
	c.mu.Lock()
	defer c.mu.Unlock()
	return c.leaders[shard]
}

func (c *SimClient) SetLeader(shard int64, addr string) {
	c.mu.Lock()
	c.leaders[shard] = addr
	c.mu.Unlock()
}

var errNoLeaderKnown = status.Error(codes.Unavailable, "oxsim client: no leader known for shard")

func (c *SimClient) rpc(shard int64) (proto.OxiaClientClient, string, error) {
	l := c.Leader(shard)
	if l == "" {
		return nil, "", errNoLeaderKnown
	}
	return proto.NewOxiaClientClient(c.W.Net.Dial(c.EP, l)), l, nil
}

// Write sends one WriteRequest to the presumed leader. served = node address it went to.
func (c *SimClient) Write(shard int64, req *proto.WriteRequest, timeout time.Duration) (resp *proto.WriteResponse, served string, err error) {
	cl, l, err := c.rpc(shard)
	if err != nil {
		return nil, "", err
	}
	ctx, cancel := context.WithTimeout(context.Background(), timeout)
	defer cancel()
	req.Shard = &shard
	resp, err = cl.Write(ctx, req)
	return resp, l, err
}

func (c *SimClient) Read(shard int64, timeout time.Duration, gets ...*proto.GetRequest) ([]*proto.GetResponse, string, error) {
	return c.ReadVia("", shard, timeout, gets...)
}

// ReadVia sends the read to the given server address instead of the leader the client currently knows
// (a client whose view of the assignments is old: any server that has ever led the shard).
func (c *SimClient) ReadVia(addr string, shard int64, timeout time.Duration, gets ...*proto.GetRequest) ([]*proto.GetResponse, string, error) {
	var cl proto.OxiaClientClient
	var l string
	var err error
	if addr != "" {
		cl, l = proto.NewOxiaClientClient(c.W.Net.Dial(c.EP, addr)), addr
	} else if cl, l, err = c.rpc(shard); err != nil {
		return nil, "", err
	}
	ctx, cancel := context.WithTimeout(context.Background(), timeout)
	defer cancel()
	st, err := cl.Read(ctx, &proto.ReadRequest{Shard: &shard, Gets: gets})
	if err != nil {
		return nil, l, err
	}
	var out []*proto.GetResponse
	for {
		rr, err := st.Recv()
		if err == io.EOF {
			return out, l, nil
		}
		if err != nil {
			return out, l, err
		}
		out = append(out, rr.Gets...)
	}
}

func (c *SimClient) List(shard int64, timeout time.Duration, start, end string) ([]string, string, error) {
	cl, l, err := c.rpc(shard)
	if err != nil {
		return nil, "", err
	}
	ctx, cancel := context.WithTimeout(context.Background(), timeout)
	defer cancel()
	st, err := cl.List(ctx, &proto.ListRequest{Shard: &shard, StartInclusive: start, EndExclusive: end})
	if err != nil {
		return nil, l, err
	}
	var out []string
	for {
		rr, err := st.Recv()
		if err == io.EOF {
			return out, l, nil
		}
		if err != nil {
			return out, l, err
		}
		out = append(out, rr.Keys...)
	}
}

// ---------------------------------------------------------------- inspection helpers

// ShardViews returns the white-box view of a shard on every live node, sorted by node name.
func (w *World) ShardViews(shard int64) map[string]*shardView {
	out := map[string]*shardView{}
	w.mu.Lock()
	nodes := make([]*SimNode, 0, len(w.Nodes))
	for _, n := range w.Nodes {
		nodes = append(nodes, n)
	}
	w.mu.Unlock()
	sort.Slice(nodes, func(i, j int) bool { return nodes[i].Name < nodes[j].Name })
	for _, n := range nodes {
		if n.Server == nil || n.EP.Dead() {
			continue
		}
		v, ok := n.Server.SimShardView(shard)
		if !ok {
			continue
		}
		out[n.Name] = &shardView{v.IsLeader, v.Term, int32(v.Status), v.Wal, v.DB, v.CommitOffset, v.HeadOffset}
	}
	return out
}

func (w *World) Node(name string) *SimNode {
	w.mu.Lock()
	defer w.mu.Unlock()
	return w.Nodes[name]
}
