package oxsim

// C08: the leader write pipeline is order-preserving and does not fail spuriously.
// W1 without injected faults; scheduling only (lock-site yields, latencies, ack order).

import (
	"context"
	"fmt"
	"io"
	"sort"
	"strings"
	"sync"
	"time"

	"google.golang.org/grpc/metadata"
	pb "google.golang.org/protobuf/proto"

	"github.com/oxia-db/oxia/coordinator/model"
	"github.com/oxia-db/oxia/proto"
	"github.com/oxia-db/oxia/server/wal"
)

// ackWatcher follows Ack frames on replication streams (what followers told the leader).
type ackWatcher struct {
	mu      sync.Mutex
	ackHigh map[string]map[string]int64 // leader -> follower -> highest acked offset
}

func newAckWatcher() *ackWatcher { return &ackWatcher{ackHigh: map[string]map[string]int64{}} }

func (a *ackWatcher) tap(m *TapMsg) {
	if m.Kind != "data" || m.ToServer || !strings.HasSuffix(m.Method, "/Replicate") || m.Dropped {
		return
	}
	ack := &proto.Ack{}
	if err := pb.Unmarshal(m.Payload, ack); err != nil {
		return
	}
	a.mu.Lock()
	fm := a.ackHigh[m.Dst]
	if fm == nil {
		fm = map[string]int64{}
		a.ackHigh[m.Dst] = fm
	}
	if cur, ok := fm[m.Src]; !ok || ack.Offset > cur {
		fm[m.Src] = ack.Offset
	}
	a.mu.Unlock()
}

// bound returns the highest offset o <= head such that at least need followers acked >= o.
func (a *ackWatcher) bound(leader string, head int64, need int) int64 {
	if need == 0 {
		return head
	}
	a.mu.Lock()
	defer a.mu.Unlock()
	var hs []int64
	for _, h := range a.ackHigh[leader] {
		hs = append(hs, h)
	}
	if len(hs) < need {
		return -1
	}
	sort.Slice(hs, func(i, j int) bool { return hs[i] > hs[j] })
	b := hs[need-1]
	if b > head {
		b = head
	}
	return b
}

type c08Write struct {
	Client int
	Seq    int
	Key    string
	Stream bool
	resp   *proto.WriteResponse
	err    error
}

func waitLeader(r *Run, cl *SimClient, shard int64, max time.Duration) bool {
	deadline := r.Now() + max
	for r.Now() < deadline {
		if cl.Leader(shard) != "" {
			return true
		}
		time.Sleep(200 * time.Millisecond)
	}
	return false
}

func runC08(r *Run) {
	g := NewRng(r.Seed, "c08")
	ncfg := defaultNetCfg(g)
	if lg := NewRng(r.Seed, "c08-late-send"); lg.Chance(60) {
		// a Send that returns to its caller only after the answer is already on its way back
		ncfg.LateSendPct = lg.Range(2, 25)
		ncfg.LateSendMax = time.Duration(lg.Range(500, 8000)) * time.Microsecond
	}
	w := NewWorld(r, ncfg)
	defer w.Close()
	r.Knobs["late_send"] = fmt.Sprintf("%d%%/%v", ncfg.LateSendPct, ncfg.LateSendMax)
	w.SitePct = g.Range(20, 80)
	w.YieldPct = g.Range(5, 50)
	w.YieldMax = time.Duration(g.Range(50, 4000)) * time.Microsecond
	if r.Opts["noyield"] != "" {
		w.YieldPct = 0
	}
	wal.DefaultFactoryOptions.SegmentSize = int32([]int{4096, 65536, 1 << 20}[g.Intn(3)])
	rf := uint32(g.Range(1, 3))
	nWriters := g.Range(2, 12)
	perWriter := g.Range(2, 10)
	if r.Tier == "thorough" {
		nWriters = g.Range(2, 32)
		perWriter = g.Range(2, 20)
	}
	r.Knobs["rf"] = rf
	r.Knobs["writers"] = nWriters
	r.Knobs["per_writer"] = perWriter
	r.Knobs["site_pct"] = w.SitePct
	r.Knobs["yield_pct"] = w.YieldPct
	r.Knobs["plan_size"] = nWriters

	cl := NewCluster(w, []string{"n1", "n2", "n3"}, []model.NamespaceConfig{{Name: "default", InitialShardCount: 1, ReplicationFactor: rf}})
	acks := newAckWatcher()
	w.Net.Tap = acks.tap
	cl.StartNodes()
	cl.StartCoordinator()
	ctl := w.NewClient("ctl", "default")
	ctl.FollowAssignments(cl.NodeNames)

	var writes []*c08Write
	var wmu sync.Mutex
	const shard = int64(0)

	// commit-offset invariants at every quiescent point
	lastCommit := map[string]int64{} // node/term -> last commit seen
	w.Net.AfterEvent = func() {
		for name, v := range w.ShardViews(shard) {
			if !v.IsLeader || v.Status != int32(proto.ServingStatus_LEADER) {
				continue
			}
			key := fmt.Sprintf("%s/%d", name, v.Term)
			if v.CommitOffset > v.HeadOffset {
				r.Fail("commit-passes-head", "leader %s term %d: commit offset %d > head offset %d", name, v.Term, v.CommitOffset, v.HeadOffset)
			}
			if prev, ok := lastCommit[key]; ok && v.CommitOffset < prev {
				r.Fail("commit-moved-back", "leader %s term %d: commit offset went from %d to %d", name, v.Term, prev, v.CommitOffset)
			}
			lastCommit[key] = v.CommitOffset
			if b := acks.bound(name, v.HeadOffset, int(rf/2)); v.CommitOffset > b {
				r.Fail("commit-without-quorum", "leader %s term %d: commit offset %d but only offsets <= %d are stored on the leader and acknowledged by %d follower(s) (head %d)",
					name, v.Term, v.CommitOffset, b, rf/2, v.HeadOffset)
			}
		}
	}

	ok := w.RunScript(ctl.EP, 30*time.Minute, func() {
		if !waitLeader(r, ctl, shard, 5*time.Minute) {
			r.Fail("no-leader", "no leader elected within 5 simulated minutes on a healthy cluster")
			return
		}
		// writers run concurrently
		var wg sync.WaitGroup
		for c := 0; c < nWriters; c++ {
			if !r.KeepItem(c) {
				continue
			}
			c := c
			cg := NewRng(r.Seed, "c08w", c)
			useStream := cg.Chance(40)
			useSession := cg.Chance(15)
			wc := w.NewClient(fmt.Sprintf("w%d", c), "default")
			wc.SetLeader(shard, ctl.Leader(shard))
			wg.Add(1)
			wc.EP.Go(func() {
				defer wg.Done()
				time.Sleep(time.Duration(cg.Range(0, 3000)) * time.Microsecond)
				if useSession {
					rpc, _, _ := wc.rpc(shard)
					ctx, cancel := ctxTimeout(2 * time.Minute)
					_, err := rpc.CreateSession(ctx, &proto.CreateSessionRequest{Shard: shard, SessionTimeoutMs: 300000, ClientIdentity: wc.Name})
					cancel()
					if err != nil {
						r.Fail("spurious-failure", "CreateSession by %s failed on a healthy quorum: %v", wc.Name, err)
						return
					}
					r.Count("sessions_created", 1)
				}
				if useStream {
					runStreamWriter(r, w, wc, shard, c, perWriter, cg, &wmu, &writes)
					return
				}
				for s := 0; s < perWriter && !r.Failed(); s++ {
					wr := &c08Write{Client: c, Seq: s, Key: fmt.Sprintf("k/%d/%d", c, s)}
					req := &proto.WriteRequest{Puts: []*proto.PutRequest{{Key: wr.Key, Value: []byte(fmt.Sprintf("tag-%d-%d", c, s))}}}
					wr.resp, _, wr.err = wc.Write(shard, req, 2*time.Minute)
					wmu.Lock()
					writes = append(writes, wr)
					wmu.Unlock()
					if wr.err != nil {
						r.Fail("spurious-failure", "write %s by %s failed on a healthy quorum: %v", wr.Key, wc.Name, wr.err)
						return
					}
					if cg.Chance(30) {
						time.Sleep(time.Duration(cg.Range(0, 2000)) * time.Microsecond)
					}
				}
			})
		}
		wg.Wait()
		if r.Failed() {
			return
		}
		// let acks and follower apply rounds settle
		time.Sleep(5 * time.Second)
		views := w.ShardViews(shard)
		var leader *shardView
		leaderName := ""
		for n, v := range views {
			if v.IsLeader && v.Status == int32(proto.ServingStatus_LEADER) {
				leader, leaderName = v, n
			}
		}
		if leader == nil {
			r.Fail("no-leader", "no node is leader at the end of a fault-free run")
			return
		}
		ents, err := readLog(leader.Wal, -1)
		if err != nil {
			r.Fail("log-read-error", "%v", err)
			return
		}
		// contiguous, distinct offsets
		for i, e := range ents {
			if e.Offset != int64(i) {
				r.Fail("log-not-contiguous", "leader log position %d holds offset %d", i, e.Offset)
				return
			}
		}
		// fold and compare: apply order == offset order, each caller got its own response
		m := newRefDB(shard)
		keyResp := map[string]*proto.PutResponse{}
		keyCount := map[string]int{}
		for _, e := range ents {
			ws, err := decodeEntry(e)
			if err != nil {
				r.Fail("log-decode-error", "%v", err)
				return
			}
			for _, wr := range ws {
				resp, _ := m.Apply(wr, e.Offset, e.Timestamp)
				for i, p := range wr.Puts {
					keyResp[p.Key] = resp.Puts[i]
					keyCount[p.Key]++
				}
			}
		}
		for _, wr := range writes {
			if keyCount[wr.Key] != 1 {
				r.Fail("request-not-logged-once", "acknowledged write %s appears %d times in the leader log", wr.Key, keyCount[wr.Key])
				return
			}
			want := keyResp[wr.Key]
			if wr.resp == nil || len(wr.resp.Puts) != 1 {
				r.Fail("wrong-response", "write %s got a malformed response", wr.Key)
				return
			}
			if msg := eqVersion(wr.resp.Puts[0].Version, want.Version); msg != "" || wr.resp.Puts[0].Status != want.Status {
				r.Fail("wrong-response", "write %s (stream=%v): caller received a response that is not the one of its own request: %s (got version %v)", wr.Key, wr.Stream, msg, wr.resp.Puts[0].Version)
				return
			}
		}
		dump, err := dumpDB(leader.DB)
		if err != nil {
			r.Fail("dump-error", "%v", err)
			return
		}
		if msg := m.compareDump(dump, true); msg != "" {
			r.Fail("apply-order", "leader DB differs from applying the log in offset order: %s", msg)
			return
		}
		// quiet end state: commit offset equals what the acks justify, and equals head
		if b := acks.bound(leaderName, leader.HeadOffset, int(rf/2)); leader.CommitOffset != b {
			r.Fail("commit-lags-quorum", "at rest: commit offset %d but offsets up to %d are on the leader and acknowledged by %d follower(s)", leader.CommitOffset, b, rf/2)
			return
		}
		if leader.CommitOffset != int64(len(ents))-1 {
			r.Fail("commit-lags-head", "at rest on a healthy cluster: commit offset %d, last log offset %d", leader.CommitOffset, len(ents)-1)
			return
		}
		r.Count("writes_checked", int64(len(writes)))
	})
	if !ok && !r.Failed() {
		done := 0
		wmu.Lock()
		done = len(writes)
		wmu.Unlock()
		r.Fail("stuck", "writers did not finish within 30 simulated minutes on a healthy cluster (%d of %d writes returned)", done, nWriters*perWriter)
	}
	w.Net.AfterEvent = nil
	ctl.Stop()
	r.Sig(fmt.Sprintf("rf=%d w=%d p=%d y=%d/%d/%v", rf, nWriters, perWriter, w.SitePct, w.YieldPct, w.YieldMax))
	if r.Stat("yield") > 0 && r.Stat("writes_checked") > 3 {
		r.Count("nontrivial", 1)
	}
	stopAll(w, cl)
}

func runStreamWriter(r *Run, w *World, wc *SimClient, shard int64, c, n int, cg *Rng, wmu *sync.Mutex, writes *[]*c08Write) {
	rpc, _, err := wc.rpc(shard)
	if err != nil {
		r.Fail("spurious-failure", "%v", err)
		return
	}
	ctx, cancel := context.WithTimeout(context.Background(), 5*time.Minute)
	defer cancel()
	ctx = metadata.AppendToOutgoingContext(ctx, "namespace", "default", "shard-id", fmt.Sprint(shard))
	st, err := rpc.WriteStream(ctx)
	if err != nil {
		r.Fail("spurious-failure", "WriteStream open failed: %v", err)
		return
	}
	var mine []*c08Write
	for s := 0; s < n; s++ {
		wr := &c08Write{Client: c, Seq: s, Key: fmt.Sprintf("k/%d/%d", c, s), Stream: true}
		mine = append(mine, wr)
		if err := st.Send(&proto.WriteRequest{Shard: &shard, Puts: []*proto.PutRequest{{Key: wr.Key, Value: []byte(fmt.Sprintf("tag-%d-%d", c, s))}}}); err != nil {
			r.Fail("spurious-failure", "WriteStream send failed on a healthy quorum: %v", err)
			return
		}
		if cg.Chance(30) {
			time.Sleep(time.Duration(cg.Range(0, 1500)) * time.Microsecond)
		}
	}
	// responses are matched to requests by position, as the real client library does
	for s := 0; s < n; s++ {
		resp, err := st.Recv()
		if err != nil {
			if err == io.EOF {
				err = fmt.Errorf("stream closed by server after %d of %d responses", s, n)
			}
			r.Fail("spurious-failure", "WriteStream by %s failed on a healthy quorum: %v", wc.Name, err)
			return
		}
		mine[s].resp = resp
	}
	_ = st.CloseSend()
	wmu.Lock()
	*writes = append(*writes, mine...)
	wmu.Unlock()
	r.Count("stream_writers", 1)
}

// stopAll closes coordinator and nodes gracefully at the end of a run.
func stopAll(w *World, cl *Cluster) {
	if cl != nil && cl.Coord != nil {
		cl.CrashCoordinator()
	}
	w.mu.Lock()
	nodes := make([]*SimNode, 0, len(w.Nodes))
	for _, n := range w.Nodes {
		nodes = append(nodes, n)
	}
	w.mu.Unlock()
	sort.Slice(nodes, func(i, j int) bool { return nodes[i].Name < nodes[j].Name })
	for _, n := range nodes {
		if !n.EP.Dead() {
			n.Stop()
		}
	}
}

func init() { registry["C08"] = runC08 }
