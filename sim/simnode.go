package oxsim

// World pieces: storage-node and coordinator incarnations running real oxia code on the
// simulated transport, plus the global hooks (client pool, yield points).

import (
	"strings"
	"crypto/tls"
	"fmt"
	"os"
	"path/filepath"
	"runtime"
	"sync"
	"time"

	"google.golang.org/grpc"

	"github.com/oxia-db/oxia/common/rpc"
	sync2 "github.com/oxia-db/oxia/common/simsync"
	"github.com/oxia-db/oxia/server"
	"github.com/oxia-db/oxia/server/auth"
	"github.com/oxia-db/oxia/server/kv"
	"github.com/oxia-db/oxia/server/wal"
)

// World owns the network, the endpoints and the hooks of one run.
type World struct {
	R    *Run
	Net  *Net
	Root string

	mu     sync.Mutex
	byTag  map[uint64]*Endpoint
	Nodes  map[string]*SimNode // current incarnation per logical name
	incs   map[string]int

	// yield points
	yieldMu    sync.Mutex
	yieldOrd   map[string]int64
	siteCache  map[uintptr]string
	YieldPct   int           // probability (percent) that an active site yields on a hit
	YieldMax   time.Duration // maximal fake-time delay of one yield
	SitePct    int           // percent of lock sites active in this run
	yieldOff   bool
	NoGosched  bool // worlds without busy-waiting code (client library): lock sites are not rescheduling points
	spin       map[uint64]*spinState
	parked     map[string]int // node -> goroutines currently parked at a yield point
	DisabledSites map[string]bool
}

var yieldLog = os.Getenv("OXSIM_YLOG") != ""

type spinState struct {
	at int64
	n  int
	lastFire  int64 // simulated time of the last breaker firing
	lastSleep int64
	streak    int
}

type simGrpcServer struct{ port int }

func (s simGrpcServer) Close() error { return nil }
func (s simGrpcServer) Port() int    { return s.port }

type simGrpcProvider struct{ e *Endpoint }

func (p simGrpcProvider) StartGrpcServer(name, bindAddress string, registerFunc func(grpc.ServiceRegistrar), _ *tls.Config, _ *auth.Options) (rpc.GrpcServer, error) {
	registerFunc(Registrar{p.e})
	return simGrpcServer{port: 1}, nil
}

func NewWorld(r *Run, cfg NetConfig) *World {
	w := &World{R: r, Net: NewNet(r, cfg), Root: newScratchDir("world"), byTag: map[uint64]*Endpoint{}, Nodes: map[string]*SimNode{},
		incs: map[string]int{}, spin: map[uint64]*spinState{}, parked: map[string]int{}, yieldOrd: map[string]int64{}, siteCache: map[uintptr]string{}, DisabledSites: map[string]bool{}}
	rpc.SimNewPool = func() func(target string) (rpc.SimConn, error) {
		tag := runtime.SimTag()
		w.mu.Lock()
		ep := w.byTag[tag]
		w.mu.Unlock()
		return func(target string) (rpc.SimConn, error) {
			if ep == nil {
				return nil, errNoEndpoint
			}
			return w.Net.Dial(ep, target), nil
		}
	}
	sync2.YieldHook = w.yield
	kv.SimFS = nil
	kv.SimFSOf = nil
	// tuning knob, per run: the engine's memtable size (production 32 MiB; first-touch of dozens
	// of 32 MiB arenas dominated the cost of runs with many shard replicas, and small memtables
	// make the engine flush on its own within short runs)
	kv.SimMemTableSize = []uint64{128 << 10, 512 << 10, 2 << 20}[H(r.Seed, "memtable")%3]
	r.Knobs["memtable"] = kv.SimMemTableSize
	return w
}

// Close removes hooks and scratch space.
func (w *World) Close() {
	sync2.YieldHook = nil
	rpc.SimNewPool = nil
	kv.SimFS = nil
	kv.SimFSOf = nil
	kv.SimMemTableSize = 0
	w.yieldOff = true
	os.RemoveAll(w.Root)
}

func (w *World) Endpoint(name string, addrs ...string) *Endpoint {
	w.mu.Lock()
	w.incs[name]++
	inc := w.incs[name]
	w.mu.Unlock()
	e := w.Net.NewEndpoint(name, inc, addrs...)
	w.mu.Lock()
	w.byTag[e.Tag] = e
	w.mu.Unlock()
	return e
}

func (w *World) endpointOfCaller() *Endpoint {
	tag := runtime.SimTag()
	if tag == 0 {
		return nil
	}
	w.mu.Lock()
	defer w.mu.Unlock()
	return w.byTag[tag]
}

// yield is the simsync hook: a hash-chosen fake-time sleep before a Lock/RLock of a
// goroutine that belongs to a simulated process.
func (w *World) yield(pc uintptr) {
	if w.yieldOff {
		return
	}

	ep := w.endpointOfCaller()
	if ep == nil || ep.Dead() {
		return
	}
	// every lock acquisition of the system under test is a cooperative scheduling point:
	// workers run on one P without asynchronous preemption, so a busy-wait loop (e.g. the
	// follower cursor spinning on a closed quorum tracker) must not starve the goroutine
	// that would end it
	if !w.NoGosched {
		runtime.Gosched()
	}
	w.yieldMu.Lock()
	// a goroutine busy-waiting at one simulated instant would freeze the bubble's clock
	// (time only advances when everything is durably blocked): after many visits within the
	// same instant, let a little simulated time pass, as real time would during the spin
	now := int64(w.R.Now())
	sp := w.spin[runtime.SimPath()]
	if sp == nil {
		sp = &spinState{}
		w.spin[runtime.SimPath()] = sp
	}
	if sp.at == now {
		sp.n++
	} else {
		sp.at, sp.n = now, 0
	}
	if sp.n > 2000 {
		sp.n = 0
		// a goroutine that keeps spinning (e.g. the notification dispatcher polling an interval
		// whose batches were all trimmed) is slowed down progressively, up to ~50 ms per round
		if sp.lastSleep > 0 && now-sp.lastFire <= 2*sp.lastSleep {
			if sp.streak < 10 {
				sp.streak++
			}
		} else {
			sp.streak = 0
		}
		d := 50 * time.Microsecond << sp.streak
		sp.lastFire, sp.lastSleep = now, int64(d)
		w.yieldMu.Unlock()
		w.R.Count("spin_breaker", 1)
		time.Sleep(d)
		w.yieldMu.Lock()
	}
	site, ok := w.siteCache[pc]
	if !ok {
		f := runtime.FuncForPC(pc - 1)
		file, line := "?", 0
		if f != nil {
			file, line = f.FileLine(pc - 1)
		}
		site = fmt.Sprintf("%s:%d", filepath.Base(file), line)
		w.siteCache[pc] = site
	}
	if w.YieldPct == 0 || w.DisabledSites[site] || int(H(w.R.Seed, "site", site)%100) >= w.SitePct {
		w.yieldMu.Unlock()
		return
	}
	// the decision depends on the goroutine's own identity and its own count of yield-point
	// visits, not on how concurrently running goroutines happened to interleave
	gkey := fmt.Sprintf("%s|%x", ep.Name, runtime.SimPath())
	w.yieldMu.Unlock()
	// keyed by simulated time, not by a visit counter: how often a goroutine re-checks a
	// condition within one instant depends on real-time races, the instant does not
	ord := int64(w.R.Now())
	h := H(w.R.Seed, "yield", gkey, site, ord)
	if int(h%100) >= w.YieldPct {
		return
	}
	d := time.Duration(h>>8%uint64(w.YieldMax)) + 1
	if yieldLog {
		fmt.Fprintf(os.Stderr, "YIELD t=%v %s %s #%d d=%v\n", w.R.Now(), gkey, site, ord, d)
	}
	w.R.Count("yield", 1)
	w.R.Count("yield@"+site, 1)
	w.yieldMu.Lock()
	w.parked[ep.Name]++
	w.yieldMu.Unlock()
	time.Sleep(d)
	w.yieldMu.Lock()
	w.parked[ep.Name]--
	w.yieldMu.Unlock()
}

// ---------------------------------------------------------------- storage node

type SimNode struct {
	CloseStuck bool // Stop gave up waiting for Server.Close (the old incarnation still holds its files)
	W       *World
	Name    string
	EP      *Endpoint
	Server  *server.Server
	Dir     string // this incarnation's directory (data + wal below it)
	Tracker *diskTracker
	Public, Internal string
	startErr error
}

func nodePublic(name string) string   { return name + ":6648" }
func nodeInternal(name string) string { return name + ":6649" }

// StartNode starts a fresh incarnation of a storage node on directory dir
// (created if missing).  It blocks until the server object exists.
func (w *World) StartNode(name, dir string, cfgMod func(*server.Config)) *SimNode {
	n := &SimNode{W: w, Name: name, Dir: dir, Public: nodePublic(name), Internal: nodeInternal(name)}
	n.EP = w.Endpoint(name, n.Public, n.Internal)
	_ = os.MkdirAll(dir, 0o755)
	n.Tracker = newDiskTracker(filepath.Join(dir, "wal"))
	n.Tracker.install()
	cfg := server.Config{
		PublicServiceAddr:          n.Public,
		InternalServiceAddr:        n.Internal,
		DataDir:                    filepath.Join(dir, "db"),
		WalDir:                     filepath.Join(dir, "wal"),
		WalRetentionTime:           1 * time.Hour,
		WalSyncData:                true,
		NotificationsRetentionTime: 1 * time.Hour,
		DbBlockCacheMB:             1,
	}
	if cfgMod != nil {
		cfgMod(&cfg)
	}
	done := make(chan struct{})
	n.EP.Go(func() {
		defer close(done)
		s, err := server.NewWithGrpcProvider(cfg, simGrpcProvider{n.EP}, server.NewReplicationRpcProvider(nil))
		n.Server, n.startErr = s, err
	})
	<-done
	if n.startErr != nil {
		w.R.Logf("node %s failed to start: %v", n.EP, n.startErr)
	} else {
		w.R.Logf("node %s started on %s", n.EP, filepath.Base(dir))
	}
	w.mu.Lock()
	w.Nodes[name] = n
	w.mu.Unlock()
	return n
}

// Stop closes a node gracefully (all state flushed).
func (n *SimNode) Stop() {
	n.W.Net.Kill(n.EP)
	if n.Server != nil {
		done := make(chan struct{})
		n.EP.Go(func() { defer close(done); _ = n.Server.Close() })
		select {
		case <-done:
		case <-time.After(3 * time.Minute):
			// a shutdown that never ends is a deadlock inside the node (not one of the checked
			// properties): recorded with the blocked stacks instead of hanging the run
			n.W.R.Count("diag_node_close_stuck", 1)
			n.CloseStuck = true
			n.W.R.Abandon(fmt.Sprintf("node %s never finished shutting down (deadlock inside the node, see the log); what follows in this run cannot be judged", n.EP))
			buf := make([]byte, 1<<20)
			buf = buf[:runtime.Stack(buf, true)]
			var keep []string
			for _, g := range strings.Split(string(buf), "\n\n") {
				if strings.Contains(g, "oxia/server") && (strings.Contains(g, "simsync.") || strings.Contains(g, "sync.")) {
					lines := strings.Split(g, "\n")
					if len(lines) > 14 {
						lines = lines[:14]
					}
					keep = append(keep, strings.Join(lines, "\n"))
				}
				if len(keep) >= 6 {
					break
				}
			}
			n.W.R.Logf("node %s did not shut down within 3 simulated minutes; goroutines blocked on locks:\n%s", n.EP, strings.Join(keep, "\n\n"))
		}
	}
	n.Tracker.uninstall()
}

// Crash kills the incarnation at the current quiescent point and returns the directory
// holding the disk image the next incarnation will see.  powerLoss selects the WAL
// power-loss model (durable shadow + subset of dirty pages); otherwise the page cache
// survives (process kill).  Pebble runs without its own WAL, so its unflushed state is
// lost either way.
func (n *SimNode) Crash(newDir string, powerLoss bool, pageSize int) (string, *imageStats) {
	w := n.W
	st := &imageStats{}
	n.Tracker.Freeze()
	w.Net.Kill(n.EP)
	_ = os.MkdirAll(newDir, 0o755)
	// DB directory: files as they are now (SSTs/MANIFEST are written and synced by flushes;
	// the memtable is simply not there)
	if err := copyTree(filepath.Join(n.Dir, "db"), filepath.Join(newDir, "db")); err != nil && !os.IsNotExist(err) {
		panic(err)
	}
	if powerLoss {
		if err := n.Tracker.PowerLossImage(filepath.Join(n.Dir, "wal"), filepath.Join(newDir, "wal"), H(w.R.Seed, "img", n.Name, n.EP.Inc), pageSize, st); err != nil && !os.IsNotExist(err) {
			panic(err)
		}
	} else {
		if err := copyTree(filepath.Join(n.Dir, "wal"), filepath.Join(newDir, "wal")); err != nil && !os.IsNotExist(err) {
			panic(err)
		}
	}
	w.R.Logf("crash %s powerloss=%v dirty=%d lost=%d torn=%d", n.EP, powerLoss, st.DirtyPages, st.PagesLost, st.Torn)
	// drain the zombie in the background: it only ever touches its old directory
	old := n.Server
	tr := n.Tracker
	if old != nil {
		n.EP.Go(func() {
			_ = old.Close()
			tr.uninstall()
		})
	}
	// pebble LOCK file must not block the next incarnation
	_ = os.Remove(filepath.Join(newDir, "db", "LOCK"))
	// Pebble rewrites its OPTIONS file (create, write, sync) on every open; a copy taken in the
	// middle of that is a truncated file the engine refuses to parse.  That window belongs to
	// Pebble's own crash safety, not to the code under test: the image carries no OPTIONS file
	// (it is optional, used for compatibility checks only).
	_ = filepath.Walk(filepath.Join(newDir, "db"), func(p string, info os.FileInfo, err error) error {
		if err == nil && !info.IsDir() && strings.HasPrefix(filepath.Base(p), "OPTIONS-") {
			_ = os.Remove(p)
		}
		return nil
	})
	return newDir, st
}

var _ = wal.InvalidOffset

// Parked tells how many goroutines of a node are currently parked at a yield point, i.e. in
// the middle of an operation.
func (w *World) Parked(node string) int {
	w.yieldMu.Lock()
	defer w.yieldMu.Unlock()
	return w.parked[node]
}
