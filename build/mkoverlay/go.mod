module mkoverlay

go 1.26
