package oxsim

// Simulated gRPC transport (DESIGN.md §3.2 S3).
//
// Servers register their genuine service implementations through a fake
// grpc.ServiceRegistrar; clients get a grpc.ClientConnInterface from the (overlay-swapped)
// rpc.NewClientPool.  Generated client stubs and generated server handlers run unchanged;
// only bytes-on-the-wire are replaced by events owned by the simulator: every request,
// response, stream frame, half-close, status and cancellation is a message with a
// hash-derived delivery time, delivered by one dispatcher goroutine at quiescent points.

import (
	"os"
	"container/heap"
	"context"
	"errors"
	"fmt"
	"io"
	"runtime"
	"sort"
	"strings"
	"sync"
	"sync/atomic"
	"time"

	"google.golang.org/grpc"
	"google.golang.org/grpc/codes"
	"google.golang.org/grpc/metadata"
	"google.golang.org/grpc/peer"
	"google.golang.org/grpc/status"
	pb "google.golang.org/protobuf/proto"
)

// ---------------------------------------------------------------- endpoints

// Endpoint is one incarnation of a process (storage node, coordinator, client).
type Endpoint struct {
	net   *Net
	Name  string // stable logical name, e.g. "n1", "coord", "c3"
	Inc   int    // incarnation
	Tag   uint64 // goroutine tag
	addrs map[string]bool
	svcs  map[string]*svcEntry // full service name -> impl

	baseCtx context.Context
	cancel  context.CancelFunc
	dead    atomic.Bool // crashed: nothing leaves, nothing arrives
	streams sync.Map    // id -> *simStream (both roles)
	serving sync.Map    // *unaryCall -> true: unary calls being served here
	skewMs  atomic.Int64
}

type svcEntry struct {
	desc *grpc.ServiceDesc
	impl any
}

func (e *Endpoint) String() string { return fmt.Sprintf("%s#%d", e.Name, e.Inc) }
func (e *Endpoint) Dead() bool     { return e.dead.Load() }

// Go runs f in a goroutine that carries this endpoint's tag.
func (e *Endpoint) Go(f func()) {
	go func() {
		runtime.SetSimTag(e.Tag)
		f()
	}()
}

// GoID is Go with a goroutine identity rooted at a canonical name (e.g. a message id), so
// that the identity of handler goroutines does not depend on the dispatcher's history.
func (e *Endpoint) GoID(id string, f func()) {
	go func() {
		runtime.SetSimTag(e.Tag)
		runtime.SetSimPath(H(e.net.r.Seed, "go", e.Name, e.Inc, id))
		f()
	}()
}

// ---------------------------------------------------------------- messages

var debugOpens = os.Getenv("OXSIM_DEBUG_OPENS") != ""

type msgKind int

const (
	mUnaryReq msgKind = iota
	mUnaryResp
	mStreamOpen
	mStreamData   // either direction
	mStreamHalf   // client half-close
	mStreamStatus // server finished: status to client
	mCancel       // client cancelled: cancel server ctx
	mTimer        // internal scheduled action
)

func (k msgKind) String() string {
	return [...]string{"req", "resp", "open", "data", "half", "status", "cancel", "timer"}[k]
}

type message struct {
	at    time.Duration // delivery time (virtual)
	id    string        // canonical id (tie break + log)
	kind  msgKind
	src   *Endpoint
	dst   *Endpoint // may be nil until resolved at delivery
	daddr string
	method string
	payload []byte
	md      metadata.MD
	call    *unaryCall
	stream  *simStream
	toServer bool
	st      *status.Status
	deadline time.Time
	hasDeadline bool
	fn      func()
	dup     bool
	holds   int
}

type msgHeap []*message

func (h msgHeap) Len() int { return len(h) }
func (h msgHeap) Less(i, j int) bool {
	if h[i].at != h[j].at {
		return h[i].at < h[j].at
	}
	return h[i].id < h[j].id
}
func (h msgHeap) Swap(i, j int)  { h[i], h[j] = h[j], h[i] }
func (h *msgHeap) Push(x any)    { *h = append(*h, x.(*message)) }
func (h *msgHeap) Pop() any      { o := *h; n := len(o); x := o[n-1]; *h = o[:n-1]; return x }

// NetConfig holds per-run knobs of the transport.
type NetConfig struct {
	MinLatency, MaxLatency time.Duration
	DropPct                int // unary request/response loss
	DupPct                 int // unary request duplication
	SlowPct                int // percent of messages that get a long delay
	SlowMax                time.Duration
	LateSendPct            int // percent of stream sends that return to the caller only after a delay (the message itself is on its way)
	LateSendMax            time.Duration
}

// Net is the simulated network plus the dispatcher.
type Net struct {
	r   *Run
	cfg NetConfig

	mu       sync.Mutex
	pending  []*message // produced since the last harvest
	q        msgHeap
	wake     chan struct{}
	byAddr   map[string]*Endpoint
	eps      []*Endpoint
	tagSeq   uint64
	pairSeq  map[string]int64 // canonical ordinal per (src,dst,method)
	blocked  map[string]bool  // "src>dst" directed partitions (by logical name)
	streamSeq map[string]int64

	// Tap observes every message right before delivery, at a quiescent point.
	Tap func(m *TapMsg)
	// Hold lets a trigger rule postpone the delivery of a unary request (fault placement:
	// "deliver NewTerm while the node is in the middle of an append").  Returning true
	// re-queues the message a little later, at most maxHolds times.
	Hold func(m *TapMsg, holds int) bool
	// TapSent observes every message at the first quiescent point after it was sent.
	TapSent func(m *TapMsg)
	// Quiesce observers: called by the dispatcher after each delivered event.
	AfterEvent func()

	stop    atomic.Bool
	events  int64
	maxEvents int64
}

// TapMsg is what monitors see.
type TapMsg struct {
	Kind    string
	Src, Dst string // logical names
	SrcInc, DstInc int
	Method  string
	Payload []byte
	MD      metadata.MD
	Status  *status.Status
	ToServer bool
	StreamID string
	Dropped bool
	CallID  string // unary: id of the request message (same on request and response)
	Sent    bool   // true when reported by TapSent (first quiescent point after the send)
}

func NewNet(r *Run, cfg NetConfig) *Net {
	n := &Net{r: r, cfg: cfg, wake: make(chan struct{}, 1), byAddr: map[string]*Endpoint{}, pairSeq: map[string]int64{},
		blocked: map[string]bool{}, streamSeq: map[string]int64{}, maxEvents: 400000}
	return n
}

// NewEndpoint creates an incarnation; addrs are the listen addresses it owns.
func (n *Net) NewEndpoint(name string, inc int, addrs ...string) *Endpoint {
	n.mu.Lock()
	defer n.mu.Unlock()
	n.tagSeq++
	e := &Endpoint{net: n, Name: name, Inc: inc, Tag: n.tagSeq, addrs: map[string]bool{}, svcs: map[string]*svcEntry{}}
	e.baseCtx, e.cancel = context.WithCancel(context.Background())
	for _, a := range addrs {
		e.addrs[a] = true
		n.byAddr[a] = e
	}
	n.eps = append(n.eps, e)
	return e
}

// Kill marks an incarnation dead: its messages vanish, its streams break on the peers
// after a detection delay, its handler contexts are cancelled.
func (n *Net) Kill(e *Endpoint) {
	if e.dead.Swap(true) {
		return
	}
	n.mu.Lock()
	for a := range e.addrs {
		if n.byAddr[a] == e {
			delete(n.byAddr, a)
		}
	}
	n.mu.Unlock()
	e.cancel()
	e.serving.Range(func(k, _ any) bool {
		c := k.(*unaryCall)
		c.failLater(status.New(codes.Unavailable, "transport is closing (peer crashed)"), n.detectDelay(c.id))
		return true
	})
	// break every stream that involves e, as seen from the live peer
	e.streams.Range(func(_, v any) bool {
		s := v.(*simStream)
		s.breakBoth(status.New(codes.Unavailable, "transport is closing (peer crashed)"), n.detectDelay(s.id))
		return true
	})
}

func (n *Net) detectDelay(id string) time.Duration {
	h := H(n.r.Seed, "detect", id)
	if h%4 == 0 { // machine died: keep-alive timeout
		return 10*time.Second + time.Duration(h>>8%uint64(10*time.Second))
	}
	return time.Millisecond + time.Duration(h>>8%uint64(200*time.Millisecond)) // RST
}

// Partition blocks traffic from a to b (logical names). Heal removes it.
func (n *Net) Partition(a, b string) {
	n.mu.Lock()
	n.blocked[a+">"+b] = true
	n.mu.Unlock()
}
func (n *Net) Heal(a, b string) {
	n.mu.Lock()
	delete(n.blocked, a+">"+b)
	n.mu.Unlock()
}
func (n *Net) HealAll() {
	n.mu.Lock()
	n.blocked = map[string]bool{}
	n.mu.Unlock()
}
func (n *Net) isBlocked(a, b string) bool {
	n.mu.Lock()
	defer n.mu.Unlock()
	return n.blocked[a+">"+b]
}

// BreakStreams breaks every open stream between two logical endpoints (connection reset).
func (n *Net) BreakStreams(a, b string) int {
	cnt := 0
	n.mu.Lock()
	eps := append([]*Endpoint(nil), n.eps...)
	n.mu.Unlock()
	for _, e := range eps {
		if e.Name != a || e.Dead() {
			continue
		}
		e.streams.Range(func(_, v any) bool {
			s := v.(*simStream)
			if (s.client.Name == a && s.serverName() == b) || (s.client.Name == b && s.serverName() == a) {
				if !s.broken.Load() {
					s.breakBoth(status.New(codes.Unavailable, "connection reset"), time.Millisecond)
					cnt++
				}
			}
			return true
		})
	}
	return cnt
}

// ---------------------------------------------------------------- sending

// lateReturn: a Send hands its message to the transport and may return to the caller any time later (the
// sender is descheduled, flow control); the answer can be on its way back before the caller's next
// statement runs.  Decided per (sender, method, payload) from the run's seed.
func (n *Net) lateReturn(src, method string, payload []byte) {
	if n.cfg.LateSendPct <= 0 || n.cfg.LateSendMax <= 0 {
		return
	}
	h := H(n.r.Seed, "late-send", src, method, payload)
	if int(h%100) < n.cfg.LateSendPct {
		n.r.Count("sends_returning_late", 1)
		time.Sleep(time.Duration((h >> 8) % uint64(n.cfg.LateSendMax)))
	}
}

func (n *Net) latency(id string) time.Duration {
	h := H(n.r.Seed, "lat", id)
	span := uint64(n.cfg.MaxLatency - n.cfg.MinLatency)
	d := n.cfg.MinLatency
	if span > 0 {
		d += time.Duration(h % span)
	}
	if n.cfg.SlowPct > 0 && int(h>>32%100) < n.cfg.SlowPct && n.cfg.SlowMax > 0 {
		d += time.Duration(h >> 16 % uint64(n.cfg.SlowMax))
	}
	return d
}

func (n *Net) nextOrdinal(key string) int64 {
	n.pairSeq[key]++
	return n.pairSeq[key]
}

// send queues a message; called from any goroutine.
func (n *Net) send(m *message) {
	n.mu.Lock()
	if m.stream != nil && m.kind != mCancel && m.kind != mTimer {
		// frames of one stream direction are totally ordered by their send order
		s := m.stream
		if m.toServer {
			s.seqToServer++
			m.id = fmt.Sprintf("strm/%s/up/%06d/%s", s.id, s.seqToServer, m.kind)
		} else {
			s.seqToClient++
			m.id = fmt.Sprintf("strm/%s/dn/%06d/%s", s.id, s.seqToClient, m.kind)
		}
	}
	n.pending = append(n.pending, m)
	n.mu.Unlock()
	select {
	case n.wake <- struct{}{}:
	default:
	}
}

// After schedules fn on the dispatcher at now+d (faults, client ops).
func (n *Net) After(d time.Duration, id string, fn func()) {
	n.send(&message{kind: mTimer, id: "timer/" + id, at: n.r.Now() + d, fn: fn})
}

// harvest moves pending messages into the heap in canonical order. Dispatcher only.
func (n *Net) harvest() {
	n.mu.Lock()
	p := n.pending
	n.pending = nil
	n.mu.Unlock()
	if len(p) == 0 {
		return
	}
	// canonical id per message: kind/src/dst/method + ordinal among same key, where the
	// ordinal is assigned after sorting by a content-derived key
	for _, m := range p {
		if m.kind == mTimer {
			continue
		}
		if m.id == "" {
			m.id = fmt.Sprintf("%s/%s>%s/%s/%016x", m.kind, epName(m.src), m.dstName(), m.method, H(0, m.payload, m.streamID()))
		}
	}
	sendOrder := append([]*message(nil), p...) // what was sent when (single P: a function of the seed)
	sort.SliceStable(p, func(i, j int) bool { return p[i].id < p[j].id })
	now := n.r.Now()
	for _, m := range p {
		if m.kind != mTimer {
			if !strings.HasPrefix(m.id, "strm/") {
				key := m.id
				ord := n.nextOrdinal(key)
				m.id = fmt.Sprintf("%s#%d", key, ord)
				if m.kind == mUnaryReq && m.call != nil && m.call.id == "" {
					m.call.id = m.id
				}
			}
			if m.stream != nil && (m.kind == mStreamData || m.kind == mStreamHalf || m.kind == mStreamStatus || m.kind == mStreamOpen) {
				// FIFO per stream direction
				lat := n.latency(m.id)
				at := now + lat
				s := m.stream
				if m.toServer {
					if at <= s.lastToServer {
						at = s.lastToServer + 1
					}
					s.lastToServer = at
				} else {
					if at <= s.lastToClient {
						at = s.lastToClient + 1
					}
					s.lastToClient = at
				}
				m.at = at
			} else if m.at == 0 {
				m.at = now + n.latency(m.id)
			}
		}
		heap.Push(&n.q, m)
	}
	// observers see the messages of this step in the order in which they were sent: "an ack
	// left the node after its NewTerm reply" must not be an artefact of the canonical sort
	for _, m := range sendOrder {
		if n.TapSent != nil && m.kind != mTimer && m.kind != mCancel && !(m.src != nil && m.src.Dead()) {
			var dst *Endpoint
			switch {
			case m.dst != nil:
				dst = m.dst
			case m.stream != nil && m.toServer:
				dst = m.stream.server
			case m.stream != nil:
				dst = m.stream.client
			}
			if dst == nil && m.daddr != "" {
				dst = n.byAddrLocked(m.daddr)
			}
			t := n.mkTap(m, dst, false)
			t.Sent = true
			n.TapSent(t)
		}
	}
}

func epName(e *Endpoint) string {
	if e == nil {
		return "?"
	}
	return e.Name
}
func (m *message) dstName() string {
	if m.dst != nil {
		return m.dst.Name
	}
	return m.daddr
}
func (m *message) streamID() string {
	if m.stream != nil {
		return m.stream.id
	}
	return ""
}

// ---------------------------------------------------------------- dispatcher

// Run drives the simulation until `until` (virtual) or until stop is requested.
// It must be called from the bubble's main goroutine.
func (n *Net) RunUntil(until time.Duration) {
	for !n.stop.Load() && !n.r.Failed() {
		synctestWait()
		n.harvest()
		now := n.r.Now()
		if now >= until {
			return
		}
		if n.q.Len() == 0 || n.q[0].at > now {
			// sleep until the next event, the horizon, or a wake-up
			d := until - now
			if n.q.Len() > 0 && n.q[0].at-now < d {
				d = n.q[0].at - now
			}
			t := time.NewTimer(d)
			select {
			case <-t.C:
			case <-n.wake:
				t.Stop()
			}
			continue
		}
		m := heap.Pop(&n.q).(*message)
		n.events++
		if n.events > n.maxEvents {
			n.r.Inconclusive = "event cap reached"
			n.r.Count("event_cap", 1)
			return
		}
		n.deliver(m)
		synctestWait()
		if f := n.AfterEvent; f != nil {
			f()
		}
	}
}

func (n *Net) resolve(m *message) *Endpoint {
	if m.dst != nil {
		return m.dst
	}
	n.mu.Lock()
	defer n.mu.Unlock()
	return n.byAddr[m.daddr]
}

func (n *Net) tap(m *message, dst *Endpoint, dropped bool) {
	if n.Tap == nil || m.kind == mTimer {
		return
	}
	n.Tap(n.mkTap(m, dst, dropped))
}

func (n *Net) mkTap(m *message, dst *Endpoint, dropped bool) *TapMsg {
	t := &TapMsg{Kind: m.kind.String(), Src: epName(m.src), Method: m.method, Payload: m.payload, MD: m.md, Status: m.st,
		ToServer: m.toServer, StreamID: m.streamID(), Dropped: dropped}
	if m.src != nil {
		t.SrcInc = m.src.Inc
	}
	if dst != nil {
		t.Dst, t.DstInc = dst.Name, dst.Inc
	} else {
		t.Dst = m.daddr
	}
	if m.stream != nil && m.method == "" {
		t.Method = m.stream.method
	}
	if m.call != nil {
		t.CallID = m.call.id
		if t.CallID == "" {
			t.CallID = m.id
		}
	}
	return t
}

func (n *Net) deliver(m *message) {
	if m.kind == mTimer {
		n.r.Logf("timer %s", m.id)
		m.fn()
		return
	}
	dst := n.resolve(m)
	srcDead := m.src != nil && m.src.Dead()
	switch m.kind {
	case mUnaryReq:
		c := m.call
		if c.id == "" {
			c.id = m.id
		}
		if srcDead {
			return
		}
		if dst == nil || dst.Dead() {
			n.r.Logf("refused %s", m.id)
			n.tap(m, dst, true)
			c.failLater(status.New(codes.Unavailable, "connection refused: "+m.daddr), n.detectDelay(m.id))
			return
		}
		if n.isBlocked(m.src.Name, dst.Name) || (!m.dup && n.cfg.DropPct > 0 && int(H(n.r.Seed, "drop", m.id)%100) < n.cfg.DropPct) {
			n.r.Logf("drop %s", m.id)
			n.r.Count("net_unary_req_lost", 1)
			n.tap(m, dst, true)
			c.failLater(status.New(codes.Unavailable, "transport: connection lost"), 5*time.Second+n.detectDelay(m.id))
			return
		}
		if n.Hold != nil && m.holds < 400 && n.Hold(n.mkTap(m, dst, false), m.holds) {
			m.holds++
			m.at = n.r.Now() + 150*time.Microsecond
			heap.Push(&n.q, m)
			return
		}
		n.r.Logf("deliver %s", m.id)
		n.tap(m, dst, false)
		if !m.dup && n.cfg.DupPct > 0 && int(H(n.r.Seed, "dup", m.id)%100) < n.cfg.DupPct {
			d := *m
			d.dup = true
			d.id = m.id + "/dup"
			d.at = n.r.Now() + n.latency(d.id)
			heap.Push(&n.q, &d)
			n.r.Count("net_unary_req_dup", 1)
		}
		dst.serveUnary(m)
	case mUnaryResp:
		c := m.call
		if srcDead || c.client.Dead() {
			return
		}
		if n.isBlocked(m.src.Name, c.client.Name) || (n.cfg.DropPct > 0 && int(H(n.r.Seed, "drop", m.id)%100) < n.cfg.DropPct) {
			n.r.Logf("drop %s", m.id)
			n.r.Count("net_unary_resp_lost", 1)
			n.tap(m, c.client, true)
			c.failLater(status.New(codes.Unavailable, "transport: connection lost"), 5*time.Second+n.detectDelay(m.id))
			return
		}
		n.r.Logf("deliver %s", m.id)
		n.tap(m, c.client, false)
		c.complete(m.payload, m.st)
	case mCancel:
		if m.call != nil && m.call.serverCancel != nil {
			m.call.serverCancel()
		}
		if m.stream != nil {
			m.stream.serverSideCancel()
		}
	case mStreamOpen:
		s := m.stream
		if srcDead || s.broken.Load() {
			return
		}
		if dst == nil || dst.Dead() {
			n.r.Logf("refused %s", m.id)
			n.tap(m, dst, true)
			s.breakClient(status.New(codes.Unavailable, "connection refused: "+m.daddr), n.detectDelay(m.id))
			return
		}
		if n.isBlocked(m.src.Name, dst.Name) {
			n.r.Logf("drop %s", m.id)
			n.tap(m, dst, true)
			s.breakClient(status.New(codes.Unavailable, "transport: connection lost"), 5*time.Second+n.detectDelay(m.id))
			return
		}
		n.r.Logf("deliver %s", m.id)
		n.tap(m, dst, false)
		dst.serveStream(s, m)
	case mStreamData, mStreamHalf, mStreamStatus:
		s := m.stream
		if s.broken.Load() {
			return
		}
		var from, to *Endpoint
		if m.toServer {
			from, to = s.client, s.server
		} else {
			from, to = s.server, s.client
		}
		if to == nil || from == nil || from.Dead() || to.Dead() {
			return
		}
		if n.isBlocked(from.Name, to.Name) {
			// a partitioned stream cannot lose a frame and continue: it breaks
			n.r.Logf("partition-break %s", m.id)
			n.r.Count("net_stream_partition_break", 1)
			n.tap(m, to, true)
			s.breakBoth(status.New(codes.Unavailable, "transport: connection lost"), 5*time.Second+n.detectDelay(m.id))
			return
		}
		n.r.Logf("deliver %s", m.id)
		n.tap(m, to, false)
		switch m.kind {
		case mStreamData:
			if m.toServer {
				s.toServer.push(frame{data: m.payload})
			} else {
				s.toClient.push(frame{data: m.payload})
			}
		case mStreamHalf:
			s.toServer.push(frame{eof: true})
		case mStreamStatus:
			s.toClient.push(frame{st: m.st, end: true})
			s.finish()
		}
	}
}

// ---------------------------------------------------------------- unary calls

type unaryCall struct {
	id           string
	client       *Endpoint
	done         chan struct{}
	once         sync.Once
	resp         []byte
	st           *status.Status
	serverCancel context.CancelFunc
	served       atomic.Bool
}

func (c *unaryCall) complete(resp []byte, st *status.Status) {
	c.once.Do(func() {
		c.resp, c.st = resp, st
		close(c.done)
	})
}

func (c *unaryCall) failLater(st *status.Status, d time.Duration) {
	n := c.client.net
	n.After(d, "fail/"+c.id, func() { c.complete(nil, st) })
}

// ---------------------------------------------------------------- client conn

type simConn struct {
	src    *Endpoint
	target string
	closed atomic.Bool
}

// Dial returns a connection from src to target address.
func (n *Net) Dial(src *Endpoint, target string) *simConn {
	return &simConn{src: src, target: strings.TrimPrefix(target, "tls://")}
}

func (c *simConn) Close() error { c.closed.Store(true); return nil }

func marshal(m any) ([]byte, error) {
	pm, ok := m.(pb.Message)
	if !ok {
		return nil, fmt.Errorf("oxsim: not a proto message: %T", m)
	}
	return pb.Marshal(pm)
}

func unmarshal(b []byte, m any) error {
	pm, ok := m.(pb.Message)
	if !ok {
		return fmt.Errorf("oxsim: not a proto message: %T", m)
	}
	pb.Reset(pm)
	return pb.Unmarshal(b, pm)
}

func (c *simConn) Invoke(ctx context.Context, method string, args any, reply any, _ ...grpc.CallOption) error {
	if c.closed.Load() {
		return status.Error(codes.Canceled, "grpc: the client connection is closing")
	}
	if err := ctx.Err(); err != nil {
		return status.FromContextError(err).Err()
	}
	b, err := marshal(args)
	if err != nil {
		return status.Error(codes.Internal, err.Error())
	}
	md, _ := metadata.FromOutgoingContext(ctx)
	call := &unaryCall{client: c.src, done: make(chan struct{})}
	m := &message{kind: mUnaryReq, src: c.src, daddr: c.target, method: method, payload: b, md: md.Copy(), call: call}
	if dl, ok := ctx.Deadline(); ok {
		m.deadline, m.hasDeadline = dl, true
	}
	if c.src.Dead() {
		<-ctx.Done()
		return status.FromContextError(ctx.Err()).Err()
	}
	c.src.net.send(m)
	select {
	case <-call.done:
		if call.st != nil && call.st.Code() != codes.OK {
			return call.st.Err()
		}
		if err := unmarshal(call.resp, reply); err != nil {
			return status.Error(codes.Internal, err.Error())
		}
		return nil
	case <-ctx.Done():
		if call.served.Load() {
			c.src.net.send(&message{kind: mCancel, src: c.src, daddr: c.target, method: method, call: call, payload: []byte("cancel")})
		}
		return status.FromContextError(ctx.Err()).Err()
	}
}

func splitMethod(full string) (svc, meth string) {
	full = strings.TrimPrefix(full, "/")
	i := strings.LastIndexByte(full, '/')
	if i < 0 {
		return full, ""
	}
	return full[:i], full[i+1:]
}

type simAddr string

func (a simAddr) Network() string { return "sim" }
func (a simAddr) String() string  { return string(a) }

func (e *Endpoint) handlerCtx(m *message) (context.Context, context.CancelFunc) {
	ctx, cancel := context.WithCancel(e.baseCtx)
	if m.hasDeadline {
		var c2 context.CancelFunc
		ctx, c2 = context.WithDeadline(ctx, m.deadline)
		old := cancel
		cancel = func() { c2(); old() }
	}
	if m.md != nil {
		ctx = metadata.NewIncomingContext(ctx, m.md)
	} else {
		ctx = metadata.NewIncomingContext(ctx, metadata.MD{})
	}
	ctx = peer.NewContext(ctx, &peer.Peer{Addr: simAddr(epName(m.src))})
	return ctx, cancel
}

func toStatus(err error) *status.Status {
	if err == nil {
		return status.New(codes.OK, "")
	}
	if st, ok := status.FromError(err); ok {
		return st
	}
	return status.FromContextError(err)
}

func (e *Endpoint) serveUnary(m *message) {
	svcName, meth := splitMethod(m.method)
	call := m.call
	reply := func(b []byte, st *status.Status) {
		if e.Dead() {
			return
		}
		e.net.send(&message{kind: mUnaryResp, src: e, dst: call.client, method: m.method, payload: b, st: st, call: call})
	}
	se, ok := e.svcs[svcName]
	if !ok {
		reply(nil, status.New(codes.Unimplemented, "unknown service "+svcName))
		return
	}
	var md *grpc.MethodDesc
	for i := range se.desc.Methods {
		if se.desc.Methods[i].MethodName == meth {
			md = &se.desc.Methods[i]
		}
	}
	if md == nil {
		reply(nil, status.New(codes.Unimplemented, "unknown method "+meth))
		return
	}
	ctx, cancel := e.handlerCtx(m)
	if !m.dup {
		call.serverCancel = cancel
		call.served.Store(true)
	}
	payload := m.payload
	if !m.dup {
		e.serving.Store(call, true)
	}
	e.GoID(m.id, func() {
		defer cancel()
		defer e.serving.Delete(call)
		resp, err := md.Handler(se.impl, ctx, func(in any) error { return unmarshal(payload, in) }, nil)
		if err != nil {
			reply(nil, toStatus(err))
			return
		}
		b, err := marshal(resp)
		if err != nil {
			reply(nil, status.New(codes.Internal, err.Error()))
			return
		}
		reply(b, nil)
	})
}

// ---------------------------------------------------------------- streams

type frame struct {
	data []byte
	eof  bool           // client half-close
	st   *status.Status // final status (to client) or break
	end  bool
}

// frameQ is an unbounded FIFO with durable blocking on a channel.
type frameQ struct {
	mu     sync.Mutex
	items  []frame
	notify chan struct{}
}

func newFrameQ() *frameQ { return &frameQ{notify: make(chan struct{}, 1)} }
func (q *frameQ) push(f frame) {
	q.mu.Lock()
	q.items = append(q.items, f)
	q.mu.Unlock()
	select {
	case q.notify <- struct{}{}:
	default:
	}
}
func (q *frameQ) pop(ctx context.Context) (frame, error) {
	for {
		q.mu.Lock()
		if len(q.items) > 0 {
			f := q.items[0]
			if !f.end && f.st == nil && !f.eof { // terminal frames stay at the head forever
				q.items = q.items[1:]
			}
			q.mu.Unlock()
			return f, nil
		}
		q.mu.Unlock()
		select {
		case <-q.notify:
		case <-ctx.Done():
			return frame{}, ctx.Err()
		}
	}
}

type simStream struct {
	net    *Net
	id     string
	method string
	client *Endpoint
	server *Endpoint
	daddr  string

	cctx context.Context // client ctx
	sctx context.Context // server ctx
	scancel context.CancelFunc

	toServer *frameQ
	toClient *frameQ
	lastToServer, lastToClient time.Duration
	seqToServer, seqToClient   int64

	broken    atomic.Bool
	finished  atomic.Bool
	halfSent  atomic.Bool
	handlerDone atomic.Bool
	desc      *grpc.StreamDesc
}

func (s *simStream) serverName() string {
	if s.server != nil {
		return s.server.Name
	}
	if e := s.net.byAddrLocked(s.daddr); e != nil {
		return e.Name
	}
	return s.daddr
}

func (n *Net) byAddrLocked(a string) *Endpoint {
	n.mu.Lock()
	defer n.mu.Unlock()
	return n.byAddr[a]
}

func (s *simStream) finish() {
	s.finished.Store(true)
	s.client.streams.Delete(s.id)
	if s.server != nil {
		s.server.streams.Delete(s.id)
	}
}

// breakClient makes the client side observe an error after d.
func (s *simStream) breakClient(st *status.Status, d time.Duration) {
	s.broken.Store(true)
	s.net.After(d, "brk-c/"+s.id, func() { s.toClient.push(frame{st: st, end: true}) })
}

// breakBoth: connection-level failure seen by both sides after d.
func (s *simStream) breakBoth(st *status.Status, d time.Duration) {
	if s.broken.Swap(true) {
		return
	}
	s.net.r.Count("net_stream_broken", 1)
	s.net.After(d, "brk/"+s.id, func() {
		s.toClient.push(frame{st: st, end: true})
		s.toServer.push(frame{st: status.New(codes.Canceled, "context canceled"), end: true})
		if s.scancel != nil {
			s.scancel()
		}
		s.finish()
	})
}

func (s *simStream) serverSideCancel() {
	if s.scancel != nil {
		s.scancel()
	}
	s.toServer.push(frame{st: status.New(codes.Canceled, "context canceled"), end: true})
}

func (c *simConn) NewStream(ctx context.Context, desc *grpc.StreamDesc, method string, _ ...grpc.CallOption) (grpc.ClientStream, error) {
	if c.closed.Load() {
		return nil, status.Error(codes.Canceled, "grpc: the client connection is closing")
	}
	if err := ctx.Err(); err != nil {
		return nil, status.FromContextError(err).Err()
	}
	n := c.src.net
	n.mu.Lock()
	key := c.src.Name + ">" + c.target + method
	if omd, ok := metadata.FromOutgoingContext(ctx); ok {
		// streams of different shards opened at the same instant keep their identity whatever the
		// order in which their goroutines got to run
		if v := omd.Get("shard-id"); len(v) == 1 {
			key += "/s" + v[0]
		}
	}
	n.streamSeq[key]++
	id := fmt.Sprintf("%s#%d.%d", key, c.src.Inc, n.streamSeq[key])
	n.mu.Unlock()
	if debugOpens {
		n.r.Logf("open %s by goroutine %x", id, runtime.SimPath())
	}
	s := &simStream{net: n, id: id, method: method, client: c.src, daddr: c.target, cctx: ctx,
		toServer: newFrameQ(), toClient: newFrameQ(), desc: desc}
	c.src.streams.Store(id, s)
	md, _ := metadata.FromOutgoingContext(ctx)
	m := &message{kind: mStreamOpen, src: c.src, daddr: c.target, method: method, md: md.Copy(), stream: s, toServer: true, payload: []byte(id)}
	if dl, ok := ctx.Deadline(); ok {
		m.deadline, m.hasDeadline = dl, true
	}
	n.send(m)
	// cancellation of the client ctx travels to the server
	stop := context.AfterFunc(ctx, func() {
		if !s.finished.Load() && !s.broken.Load() {
			n.send(&message{kind: mCancel, src: c.src, daddr: c.target, method: method, stream: s, payload: []byte("cancel" + id)})
		}
	})
	_ = stop
	return &clientStream{s: s}, nil
}

type clientStream struct{ s *simStream }

func (c *clientStream) Header() (metadata.MD, error) { return metadata.MD{}, nil }
func (c *clientStream) Trailer() metadata.MD         { return metadata.MD{} }
func (c *clientStream) Context() context.Context     { return c.s.cctx }
func (c *clientStream) CloseSend() error {
	s := c.s
	if s.halfSent.Swap(true) || s.broken.Load() || s.finished.Load() {
		return nil
	}
	s.net.send(&message{kind: mStreamHalf, src: s.client, stream: s, toServer: true, method: s.method, payload: []byte("half" + s.id)})
	return nil
}
func (c *clientStream) SendMsg(m any) error {
	s := c.s
	if err := s.cctx.Err(); err != nil {
		return status.FromContextError(err).Err()
	}
	if s.broken.Load() || s.finished.Load() {
		return io.EOF // gRPC: SendMsg returns io.EOF once the stream is done; RecvMsg has the status
	}
	b, err := marshal(m)
	if err != nil {
		return status.Error(codes.Internal, err.Error())
	}
	s.net.send(&message{kind: mStreamData, src: s.client, stream: s, toServer: true, method: s.method, payload: b})
	s.net.lateReturn(epName(s.client), s.method, b)
	return nil
}
func (c *clientStream) RecvMsg(m any) error {
	s := c.s
	f, err := s.toClient.pop(s.cctx)
	if err != nil {
		return status.FromContextError(err).Err()
	}
	if f.st != nil || f.end {
		if f.st == nil || f.st.Code() == codes.OK {
			return io.EOF
		}
		return f.st.Err()
	}
	if err := unmarshal(f.data, m); err != nil {
		return status.Error(codes.Internal, err.Error())
	}
	return nil
}

type serverStream struct {
	s *simStream
	e *Endpoint
}

func (ss *serverStream) SetHeader(metadata.MD) error  { return nil }
func (ss *serverStream) SendHeader(metadata.MD) error { return nil }
func (ss *serverStream) SetTrailer(metadata.MD)       {}
func (ss *serverStream) Context() context.Context     { return ss.s.sctx }
func (ss *serverStream) SendMsg(m any) error {
	s := ss.s
	if s.handlerDone.Load() {
		return status.Error(codes.Internal, "transport: SendMsg called after the handler returned")
	}
	if err := s.sctx.Err(); err != nil {
		return status.FromContextError(err).Err()
	}
	if s.broken.Load() || ss.e.Dead() {
		return status.Error(codes.Unavailable, "transport is closing")
	}
	b, err := marshal(m)
	if err != nil {
		return status.Error(codes.Internal, err.Error())
	}
	s.net.send(&message{kind: mStreamData, src: ss.e, stream: s, toServer: false, method: s.method, payload: b})
	s.net.lateReturn(epName(ss.e), s.method, b)
	return nil
}
func (ss *serverStream) RecvMsg(m any) error {
	s := ss.s
	f, err := s.toServer.pop(s.sctx)
	if err != nil {
		return status.FromContextError(err).Err()
	}
	if f.eof {
		return io.EOF
	}
	if f.st != nil || f.end {
		if f.st != nil {
			return f.st.Err()
		}
		return io.EOF
	}
	if err := unmarshal(f.data, m); err != nil {
		return status.Error(codes.Internal, err.Error())
	}
	return nil
}

func (e *Endpoint) serveStream(s *simStream, m *message) {
	svcName, meth := splitMethod(m.method)
	s.server = e
	e.streams.Store(s.id, s)
	fail := func(st *status.Status) {
		e.net.send(&message{kind: mStreamStatus, src: e, stream: s, toServer: false, method: s.method, st: st, payload: []byte("status" + s.id)})
	}
	se, ok := e.svcs[svcName]
	if !ok {
		fail(status.New(codes.Unimplemented, "unknown service "+svcName))
		return
	}
	var sd *grpc.StreamDesc
	for i := range se.desc.Streams {
		if se.desc.Streams[i].StreamName == meth {
			sd = &se.desc.Streams[i]
		}
	}
	if sd == nil {
		fail(status.New(codes.Unimplemented, "unknown method "+meth))
		return
	}
	s.sctx, s.scancel = e.handlerCtx(m)
	ss := &serverStream{s: s, e: e}
	e.GoID(m.id, func() {
		err := sd.Handler(se.impl, ss)
		s.handlerDone.Store(true)
		s.scancel()
		if e.Dead() {
			return
		}
		fail(toStatus(err))
	})
}

// ---------------------------------------------------------------- server registration

// Registrar captures service implementations for an endpoint.
type Registrar struct{ e *Endpoint }

func (r Registrar) RegisterService(desc *grpc.ServiceDesc, impl any) {
	r.e.svcs[desc.ServiceName] = &svcEntry{desc: desc, impl: impl}
}

var errNoEndpoint = errors.New("oxsim: pool created outside a tagged goroutine")
