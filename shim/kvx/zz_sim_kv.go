// Overlay-only file (oxsim, DESIGN.md §3.2 S2b/S4): adds declarations, changes none.
package kv

import (
	"github.com/cockroachdb/pebble"
	"github.com/cockroachdb/pebble/vfs"
)

// SimFS, when set, supplies the file system Pebble opens a data dir on.
var SimFS func(dataDir string) vfs.FS

func simPebbleFS(dataDir string) vfs.FS {
	if SimFS != nil {
		if fs := SimFS(dataDir); fs != nil {
			return fs
		}
	}
	return vfs.Default
}

// SimPebble exposes the engine handle of a KV (manual flush / compaction / metrics).
func SimPebble(k KV) *pebble.DB {
	if p, ok := k.(*Pebble); ok {
		return p.db
	}
	return nil
}

// SimKVOf exposes the KV underneath a DB.
func SimKVOf(d DB) KV {
	if x, ok := d.(*db); ok {
		return x.kv
	}
	return nil
}

// SimAfterCommit, when set, runs after every engine batch commit on the committing goroutine.
var SimAfterCommit func(p *pebble.DB)

func simAfterCommit(p *Pebble) {
	if SimAfterCommit != nil && p != nil && p.db != nil {
		SimAfterCommit(p.db)
	}
}

// SimBeforeCommit, when set, runs on the committing goroutine right before an engine batch commit: a point
// at which the simulator may hold that goroutine back while others run (what the batch was computed from
// may have changed by the time it is applied).
var SimBeforeCommit func(p *pebble.DB)

func simBeforeCommit(p *Pebble) {
	if SimBeforeCommit != nil && p != nil && p.db != nil {
		SimBeforeCommit(p.db)
	}
}

// SimMemTableSize, when > 0, replaces the engine's memtable size (production: 32 MiB).
var SimMemTableSize uint64

func simMemTableSize() uint64 {
	if SimMemTableSize > 0 {
		return SimMemTableSize
	}
	return 32 * 1024 * 1024
}

// SimTermStoreFault, when set, may make storing a term fail before anything is written (a usually-successful
// call returning an error: the engine was closed under the caller, the write was refused).
var SimTermStoreFault func(shard int64, newTerm int64) error

func simTermStoreFault(shard int64, newTerm int64) error {
	if SimTermStoreFault != nil {
		return SimTermStoreFault(shard, newTerm)
	}
	return nil
}
