package oxsim

// C18 / C19: histories of cluster-config changes against the real coordinator.
//
// Seven real storage nodes run from the start; the cluster configuration names a subset of
// them (with zone / rack / host labels) and a set of namespaces.  A seeded history of config
// changes -- namespaces added (1..N shards, RF 1..3, zero to two strict anti-affinity rules),
// removed and re-created under the same name with another shard count, servers added and
// removed (the coordinator then moves replicas), coordinator crashes -- is applied with random
// gaps while real client-library shard managers follow the assignments through the nodes.
//
// C18 oracles: every stored cluster status and every shard-assignment message on the wire
// (coordinator -> node, node -> client) partitions the 32-bit hash space exactly once per
// namespace; shard ids are unique across namespaces and never reused; once things have
// settled, each client shard manager routes sampled keys to the shard whose published range
// contains the key's hash, and its shard set is exactly the published one.
//
// C19 oracles, on every stored status compared with the previous one: a new or changed
// ensemble has exactly RF distinct members, all of them servers of the cluster config, and
// satisfies every strict anti-affinity rule of its namespace; a change replaces at most one
// member; a namespace never appears with only some of its shards.

import (
	"fmt"
	"sort"
	"strings"
	"sync"
	"time"

	pb "google.golang.org/protobuf/proto"

	"github.com/oxia-db/oxia/common/constant"
	"github.com/oxia-db/oxia/common/hash"
	commonrpc "github.com/oxia-db/oxia/common/rpc"
	"github.com/oxia-db/oxia/coordinator/model"
	"github.com/oxia-db/oxia/coordinator/policies"
	"github.com/oxia-db/oxia/oxia"
	"github.com/oxia-db/oxia/proto"
	"github.com/oxia-db/oxia/server/wal"
)

type cfgHarness struct {
	r    *Run
	w    *World
	cl   *Cluster
	g    *Rng
	prop string
	pool []string

	mu        sync.Mutex
	labels    map[string]map[string]string // internal address -> labels (kept after removal)
	configs   []model.ClusterConfig        // every config ever installed (latest last)
	configAt  []time.Duration              // when each of them was installed
	prev      *model.ClusterStatus
	idsSeen   map[int64]string // shard id -> namespace it was first seen in
	cutUntil  map[string]time.Duration // server -> simulated time until which it is cut off from everybody (removed while unreachable)
	gaveUp    map[string]bool  // client -> a server answered its GetShardAssignments with "namespace not found"
	termOf    map[int64]int64  // shard id -> highest term seen in a stored status (C05: the durable term never goes back)
	termSent  map[int64]int64  // shard id -> highest term the coordinator has sent in a NewTerm request
	idsGone   map[int64]bool
	maxID     int64
	nsEpoch   map[string]int // how often a namespace name has been (re)created
	published map[string][]hashRng // last assignments seen on the wire, per namespace
	clients   []*cfgClient
	prog      []string
}

type hashRng struct {
	id       int64
	min, max uint32
}

type cfgClient struct {
	epoch int // incarnation of the namespace when the client started
	name string
	ns   string
	node string // the server it follows
	sm   oxia.SimShardManager
	ep   *Endpoint
	err  error
}

func (h *cfgHarness) fail(owner, class, f string, a ...any) {
	h.r.Fail(propClass(h.prop, owner, class), f, a...)
}

// partition checks that ranges cover [0, 2^32-1] exactly once.
func partitionError(rs []hashRng) string {
	if len(rs) == 0 {
		return "no shards"
	}
	s := append([]hashRng(nil), rs...)
	sort.Slice(s, func(i, j int) bool { return s[i].min < s[j].min })
	ids := map[int64]bool{}
	for _, x := range s {
		if ids[x.id] {
			return fmt.Sprintf("shard id %d appears twice", x.id)
		}
		ids[x.id] = true
		if x.min > x.max {
			return fmt.Sprintf("shard %d has an empty range [%d,%d]", x.id, x.min, x.max)
		}
	}
	if s[0].min != 0 {
		return fmt.Sprintf("hashes 0..%d belong to no shard (first shard %d starts at %d)", s[0].min-1, s[0].id, s[0].min)
	}
	for i := 1; i < len(s); i++ {
		switch {
		case s[i].min <= s[i-1].max:
			return fmt.Sprintf("shards %d [%d,%d] and %d [%d,%d] overlap", s[i-1].id, s[i-1].min, s[i-1].max, s[i].id, s[i].min, s[i].max)
		case s[i].min != s[i-1].max+1:
			return fmt.Sprintf("hashes %d..%d belong to no shard (between shards %d and %d)", s[i-1].max+1, s[i].min-1, s[i-1].id, s[i].id)
		}
	}
	if s[len(s)-1].max != 0xFFFFFFFF {
		return fmt.Sprintf("hashes above %d belong to no shard", s[len(s)-1].max)
	}
	return ""
}

func describeRanges(rs []hashRng) string {
	s := append([]hashRng(nil), rs...)
	sort.Slice(s, func(i, j int) bool { return s[i].min < s[j].min })
	var out []string
	for _, x := range s {
		out = append(out, fmt.Sprintf("%d:[%d,%d]", x.id, x.min, x.max))
	}
	return strings.Join(out, " ")
}

func (h *cfgHarness) nsConfig(name string) (*model.NamespaceConfig, *model.NamespaceConfig) {
	// current and previous config's view of the namespace
	var cur, old *model.NamespaceConfig
	n := len(h.configs)
	for i := range h.configs[n-1].Namespaces {
		if h.configs[n-1].Namespaces[i].Name == name {
			cur = &h.configs[n-1].Namespaces[i]
		}
	}
	if n > 1 {
		for i := range h.configs[n-2].Namespaces {
			if h.configs[n-2].Namespaces[i].Name == name {
				old = &h.configs[n-2].Namespaces[i]
			}
		}
	}
	return cur, old
}

// inRecentConfig: the server is in the current configuration, in the one before, or was in a
// configuration that was current at some point in the last two simulated minutes: a swap is
// decided under the configuration of that moment, but its ensemble is stored only after its
// election has gone through, which an unreachable old member can delay for a long time.
func (h *cfgHarness) inRecentConfig(id string) bool {
	n := len(h.configs)
	now := h.r.Now()
	for k := n - 1; k >= 0; k-- {
		recent := k >= n-2 || (k+1 < len(h.configAt) && now-h.configAt[k+1] < 2*time.Minute)
		if !recent {
			break
		}
		for _, s := range h.configs[k].Servers {
			if s.GetIdentifier() == id {
				return true
			}
		}
	}
	return false
}

// onStore: every durable cluster status.
func (h *cfgHarness) onStore(n int, cs *model.ClusterStatus) {
	h.mu.Lock()
	defer h.mu.Unlock()
	h.r.Count("statuses_checked", 1)
	seenNow := map[int64]string{}
	prevMax := h.maxID
	for name, ns := range cs.Namespaces {
		var live []hashRng
		all := 0
		for id, sh := range ns.Shards {
			all++
			if prevNs, dup := seenNow[id]; dup {
				h.fail("C18", "shard-id-in-two-namespaces", "stored status #%d: shard id %d is used by namespaces %q and %q", n, id, prevNs, name)
				return
			}
			seenNow[id] = name
			if first, ok := h.idsSeen[id]; !ok {
				if h.idsGone[id] || id <= prevMax {
					h.fail("C18", "shard-id-reused", "stored status #%d: shard id %d (namespace %q) is new in this status although ids up to %d had already been handed out (deleted before: %v)", n, id, name, prevMax, h.idsGone[id])
					return
				}
				h.idsSeen[id] = fmt.Sprintf("%s#%d", name, h.nsEpoch[name])
				if id > h.maxID {
					h.maxID = id
				}
			} else if !strings.HasPrefix(first, name+"#") {
				h.fail("C18", "shard-id-reused", "stored status #%d: shard id %d now belongs to namespace %q, it was created for %s", n, id, name, first)
				return
			}
			if sh.Status != model.ShardStatusDeleting {
				live = append(live, hashRng{id, sh.Int32HashRange.Min, sh.Int32HashRange.Max})
			}
			// C05: the coordinator's durable term of a shard never goes back, in particular not below a
			// term it has already sent out (config changes and elections write the same record)
			if prev, ok := h.termOf[id]; ok && sh.Term < prev {
				h.fail("C05", "stored-term-decreased", "stored status #%d: shard %d (namespace %q) has term %d, an earlier stored status had term %d (highest term sent in a NewTerm request so far: %d)", n, id, name, sh.Term, prev, h.termSent[id])
				return
			}
			h.termOf[id] = sh.Term
		}
		if cur, _ := h.nsConfig(name); cur != nil && len(live) == 0 && len(ns.Shards) == 0 {
			h.r.Count("namespace_stored_without_any_shard", 1)
		}
		if cur, _ := h.nsConfig(name); cur == nil && len(live) > 0 {
			// the namespace was removed from the configuration: its shards are on their way out.  (A
			// shard controller that was in the middle of a swap can write its shard back with a
			// non-deleting status after the removal; what is left of the namespace is not a map
			// anybody is promised, see DESIGN.md section 12.)
			h.r.Count("removed_namespace_with_live_shards", 1)
		} else if len(live) > 0 {
			if cur, _ := h.nsConfig(name); cur != nil && uint32(len(live)) < cur.InitialShardCount {
				h.r.Count("namespace_with_fewer_shards_than_configured", 1)
			}
			if msg := partitionError(live); msg != "" {
				cur, _ := h.nsConfig(name)
				want := uint32(0)
				if cur != nil {
					want = cur.InitialShardCount
				}
				h.fail("C18", "stored-shard-map-not-a-partition", "stored status #%d, namespace %q (configured with %d shards): %s; shards: %s; config history: %s", n, name, want, msg, describeRanges(live), lastN(h.prog, 6))
				return
			}
			h.r.Count("namespace_maps_checked", 1)
		}
		h.checkEnsembles(n, name, ns, cs)
		if h.r.Failed() {
			return
		}
	}
	// ids that disappeared are gone for good
	if h.prev != nil {
		for _, ns := range h.prev.Namespaces {
			for id := range ns.Shards {
				if _, still := seenNow[id]; !still {
					h.idsGone[id] = true
				}
			}
		}
	}
	if cs.ShardIdGenerator <= h.maxID {
		h.fail("C18", "shard-id-generator-behind", "stored status #%d: shard id generator is %d but shard id %d exists", n, cs.ShardIdGenerator, h.maxID)
		return
	}
	h.prev = cs.Clone()
}

func idsOf(l []model.Server) []string {
	var out []string
	for _, s := range l {
		out = append(out, nodeOfAddr(s.GetIdentifier()))
	}
	return out
}

// checkEnsembles: C19, for new shards and changed ensembles.  mu held.
func (h *cfgHarness) checkEnsembles(n int, name string, ns model.NamespaceStatus, cs *model.ClusterStatus) {
	var prevNs *model.NamespaceStatus
	if h.prev != nil {
		if p, ok := h.prev.Namespaces[name]; ok {
			prevNs = &p
		}
	}
	cur, old := h.nsConfig(name)
	for id, sh := range ns.Shards {
		if sh.Status == model.ShardStatusDeleting {
			continue
		}
		var before []model.Server
		isNew := true
		if prevNs != nil {
			if p, ok := prevNs.Shards[id]; ok {
				isNew = false
				before = p.Ensemble
			}
		}
		changed := !isNew && strings.Join(idsOf(before), ",") != strings.Join(idsOf(sh.Ensemble), ",")
		if !isNew && !changed {
			continue
		}
		h.r.Count("ensembles_checked", 1)
		desc := fmt.Sprintf("stored status #%d, namespace %q shard %d: ensemble %v", n, name, id, idsOf(sh.Ensemble))
		if changed {
			desc += fmt.Sprintf(" (was %v)", idsOf(before))
			h.r.Count("ensemble_changes_checked", 1)
		}
		if uint32(len(sh.Ensemble)) != ns.ReplicationFactor {
			h.fail("C19", "ensemble-size-not-rf", "%s has %d members, replication factor is %d", desc, len(sh.Ensemble), ns.ReplicationFactor)
			return
		}
		seen := map[string]bool{}
		for _, s := range sh.Ensemble {
			sid := s.GetIdentifier()
			if seen[sid] {
				h.fail("C19", "ensemble-duplicate-member", "%s: server %s appears twice", desc, nodeOfAddr(sid))
				return
			}
			seen[sid] = true
		}
		added := 0
		oldSet := map[string]bool{}
		for _, s := range before {
			oldSet[s.GetIdentifier()] = true
		}
		for _, s := range sh.Ensemble {
			sid := s.GetIdentifier()
			if (isNew || !oldSet[sid]) && !h.inRecentConfig(sid) {
				h.fail("C19", "ensemble-member-not-in-cluster", "%s: %s is not a server of the cluster configuration", desc, nodeOfAddr(sid))
				return
			}
			if !oldSet[sid] {
				added++
			}
		}
		if changed && added > 1 {
			h.fail("C19", "ensemble-change-replaces-several-members", "%s: %d members were replaced in one step", desc, added)
			return
		}
		// strict anti-affinity rules of the namespace (as configured now or just before)
		// Only members that are servers of the configuration count: the coordinator has no labels
		// for a server that was removed from the configuration (its replicas are on their way out).
		violated := func(nc *model.NamespaceConfig, back int) string {
			if nc == nil || nc.Policies == nil {
				return ""
			}
			k := len(h.configs) - 1 - back
			if k < 0 {
				return ""
			}
			member := map[string]bool{}
			for _, s := range h.configs[k].Servers {
				member[s.GetIdentifier()] = true
			}
			for _, aa := range nc.Policies.AntiAffinities {
				if aa.Mode != policies.Strict {
					continue
				}
				for _, label := range aa.Labels {
					vals := map[string]string{}
					for _, s := range sh.Ensemble {
						if !member[s.GetIdentifier()] {
							continue
						}
						v := h.labels[s.GetIdentifier()][label]
						if other, dup := vals[v]; dup {
							return fmt.Sprintf("members %s and %s share %s=%s", other, nodeOfAddr(s.GetIdentifier()), label, v)
						}
						vals[v] = nodeOfAddr(s.GetIdentifier())
					}
				}
			}
			return ""
		}
		// (a config installed a moment ago may not be the one the selection was made under)
		msg := violated(cur, 0)
		if msg != "" && (old == nil || violated(old, 1) != "") {
			// was one of the members out of the configuration a short while ago?  A move planned then did
			// not see its labels and is applied now that the server is back.
			note := ""
			now := h.r.Now()
			for _, s := range sh.Ensemble {
				id := s.GetIdentifier()
				for k := len(h.configs) - 2; k >= 0 && k+1 < len(h.configAt) && now-h.configAt[k+1] < 2*time.Minute; k-- {
					in := false
					for _, cs := range h.configs[k].Servers {
						in = in || cs.GetIdentifier() == id
					}
					if !in {
						note = fmt.Sprintf(" (%s was out of the cluster configuration until %.1f s ago: a move planned meanwhile did not see its labels and is applied now that the server is back)", nodeOfAddr(id), (now - h.configAt[k+1]).Seconds())
						break
					}
				}
				if note != "" {
					break
				}
			}
			h.fail("C19", "anti-affinity-violated", "%s violates a strict anti-affinity rule of the namespace: %s (labels: %s)%s", desc, msg, h.labelsOf(sh.Ensemble), note)
			return
		}
	}
}

func (h *cfgHarness) labelsOf(l []model.Server) string {
	var out []string
	for _, s := range l {
		lb := h.labels[s.GetIdentifier()]
		var ks []string
		for k, v := range lb {
			ks = append(ks, k+"="+v)
		}
		sort.Strings(ks)
		out = append(out, nodeOfAddr(s.GetIdentifier())+"{"+strings.Join(ks, ",")+"}")
	}
	return strings.Join(out, " ")
}

// tap: shard assignments on the wire.
func (h *cfgHarness) tap(t *TapMsg) {
	if !t.Dropped && t.Kind == "req" && t.Src == "coord" && strings.HasSuffix(t.Method, "/NewTerm") {
		req := &proto.NewTermRequest{}
		if pb.Unmarshal(t.Payload, req) == nil {
			h.mu.Lock()
			if req.Term > h.termSent[req.Shard] {
				h.termSent[req.Shard] = req.Term
			}
			h.r.Count("newterm_requests_seen", 1)
			h.mu.Unlock()
		}
		return
	}
	if !t.Dropped && t.Kind == "status" && !t.ToServer && strings.HasSuffix(t.Method, "/GetShardAssignments") &&
		t.Status != nil && t.Status.Code() == constant.CodeNamespaceNotFound {
		// the server the client asked does not know the namespace (yet, or any more): the client
		// library does not retry this answer, its shard manager is dead from here on
		h.mu.Lock()
		h.gaveUp[t.Dst] = true
		h.mu.Unlock()
		return
	}
	if t.Dropped || t.Kind != "data" || len(t.Payload) == 0 {
		return
	}
	push := strings.HasSuffix(t.Method, "/PushShardAssignments") && t.ToServer
	get := strings.HasSuffix(t.Method, "/GetShardAssignments") && !t.ToServer
	if !push && !get {
		return
	}
	sa := &proto.ShardAssignments{}
	if pb.Unmarshal(t.Payload, sa) != nil {
		return
	}
	h.mu.Lock()
	defer h.mu.Unlock()
	for name, nsa := range sa.Namespaces {
		var rs []hashRng
		for _, a := range nsa.Assignments {
			b := a.GetInt32HashRange()
			if b == nil {
				continue
			}
			rs = append(rs, hashRng{a.Shard, b.MinHashInclusive, b.MaxHashInclusive})
		}
		if push {
			h.published[name] = rs
		}
		if len(rs) == 0 {
			continue // namespace being deleted: nothing is published for it
		}
		if cur, _ := h.nsConfig(name); cur == nil {
			continue // removed from the configuration (see onStore)
		}
		if msg := partitionError(rs); msg != "" {
			h.fail("C18", "published-shard-map-not-a-partition", "%s -> %s %s: namespace %q: %s; shards: %s", t.Src, t.Dst, t.Method[strings.LastIndexByte(t.Method, '/')+1:], name, msg, describeRanges(rs))
			return
		}
		h.r.Count("published_maps_checked", 1)
	}
}

// checkClients: after things have settled, every client shard manager agrees with what the
// coordinator published last.
func (h *cfgHarness) checkClients(where string) {
	h.mu.Lock()
	clients := append([]*cfgClient(nil), h.clients...)
	pub := map[string][]hashRng{}
	for k, v := range h.published {
		pub[k] = v
	}
	h.mu.Unlock()
	for _, c := range clients {
		if c.sm == nil {
			continue
		}
		rs := pub[c.ns]
		if len(rs) == 0 {
			continue
		}
		h.mu.Lock()
		cur, _ := h.nsConfig(c.ns)
		h.mu.Unlock()
		if cur == nil {
			continue // the namespace is not configured any more
		}
		want := map[int64]bool{}
		for _, x := range rs {
			want[x.id] = true
		}
		got := c.sm.GetAll()
		sort.Slice(got, func(i, j int) bool { return got[i] < got[j] })
		extra, missing := []int64{}, []int64{}
		gotSet := map[int64]bool{}
		for _, id := range got {
			gotSet[id] = true
			if !want[id] {
				extra = append(extra, id)
			}
		}
		for id := range want {
			if !gotSet[id] {
				missing = append(missing, id)
			}
		}
		if len(extra) > 0 || len(missing) > 0 {
			// a client that follows a server which is (or was until a moment ago) cut off from the
			// coordinator sees what that server last heard: nothing is promised about it
			h.mu.Lock()
			until, cut := h.cutUntil[c.node]
			h.mu.Unlock()
			if cut && h.r.Now() < until+45*time.Second {
				h.r.Count("clients_behind_a_cut_off_server", 1)
				continue
			}
			// A shard manager whose namespace disappeared gives up for good ("namespace not found" is
			// not retried): after the name has been re-created such a client still holds exactly the
			// old incarnation's shards.  That is the library's documented end state, not a routing
			// disagreement; a mixture of old and new shards is.
			if len(missing) == len(want) && c.epoch < h.epochOf(c.ns) {
				h.r.Count("clients_of_deleted_namespace", 1)
				continue
			}
			if len(got) > 0 && len(missing) == len(want) && h.hasGivenUp(c.name) && h.allGone(got) {
				// the client attached while its server still published the *previous* incarnation of the name
				// (the coordinator had not finished deleting it, the re-created one did not exist yet), saw the
				// namespace disappear, asked again and was told "namespace not found": it holds exactly the
				// deleted incarnation's shards, none of the current ones
				h.r.Count("clients_refused_namespace_not_found", 1)
				continue
			}
			if len(got) == 0 && h.hasGivenUp(c.name) {
				// same end state, reached because the server it asked had not heard of the (re-created)
				// namespace yet: it holds no shard at all and routes nothing
				h.r.Count("clients_refused_namespace_not_found", 1)
				continue
			}
			h.fail("C18", "client-shard-set-differs", "%s: client %s (namespace %q) knows shards %v, published are %s (stale: %v, missing: %v); config history: %s", where, c.name, c.ns, got, describeRanges(rs), extra, missing, lastN(h.prog, 8))
			return
		}
		for i := 0; i < 64; i++ {
			key := fmt.Sprintf("key-%d-%x", i, H(h.r.Seed, "ck", c.name, i))
			hv := hash.Xxh332(key)
			var owner int64 = -1
			for _, x := range rs {
				if hv >= x.min && hv <= x.max {
					owner = x.id
				}
			}
			var got int64
			func() {
				defer func() {
					if p := recover(); p != nil {
						got = -2
					}
				}()
				got = c.sm.Get(key)
			}()
			if got != owner {
				h.fail("C18", "client-routes-to-wrong-shard", "%s: client %s (namespace %q) routes key %q (hash %d) to shard %d, the published map says %d (%s)", where, c.name, c.ns, key, hv, got, owner, describeRanges(rs))
				return
			}
		}
		h.r.Count("client_routing_checks", 1)
	}
}

// allGone: every id is a shard that has disappeared from the stored status for good.
func (h *cfgHarness) allGone(ids []int64) bool {
	h.mu.Lock()
	defer h.mu.Unlock()
	for _, id := range ids {
		if !h.idsGone[id] {
			return false
		}
	}
	return true
}

func (h *cfgHarness) hasGivenUp(client string) bool {
	h.mu.Lock()
	defer h.mu.Unlock()
	return h.gaveUp[client]
}

func (h *cfgHarness) epochOf(ns string) int {
	h.mu.Lock()
	defer h.mu.Unlock()
	return h.nsEpoch[ns]
}

func (h *cfgHarness) install(cfg model.ClusterConfig, what string) {
	h.mu.Lock()
	h.configs = append(h.configs, cloneConfig(cfg))
	h.configAt = append(h.configAt, h.r.Now())
	h.prog = append(h.prog, what)
	h.mu.Unlock()
	h.r.Logf("config: %s", what)
	h.cl.SetConfig(cfg)
}

func (h *cfgHarness) current() model.ClusterConfig {
	h.mu.Lock()
	defer h.mu.Unlock()
	return cloneConfig(h.configs[len(h.configs)-1])
}

func runConfigHistory(r *Run, prop string) {
	g := NewRng(r.Seed, "cfg", prop)
	w := NewWorld(r, defaultNetCfg(g))
	defer w.Close()
	if yg := NewRng(r.Seed, "cfg-yield"); yg.Chance(50) {
		// seeded yields at the lock sites of oxia's packages: config changes, elections and the
		// balancer all read-modify-write the same status record
		w.SitePct = yg.Range(10, 60)
		w.YieldPct = yg.Range(5, 40)
		w.YieldMax = time.Duration(yg.Range(50, 2000)) * time.Microsecond
		r.Knobs["yield"] = fmt.Sprintf("%d/%d/%v", w.SitePct, w.YieldPct, w.YieldMax)
	}
	wal.DefaultFactoryOptions.SegmentSize = 32 * 1024 // dozens of shard replicas are created per run
	h := &cfgHarness{r: r, w: w, g: g, prop: prop, labels: map[string]map[string]string{}, idsSeen: map[int64]string{}, termOf: map[int64]int64{}, gaveUp: map[string]bool{}, cutUntil: map[string]time.Duration{}, termSent: map[int64]int64{}, idsGone: map[int64]bool{},
		maxID: -1, nsEpoch: map[string]int{}, published: map[string][]hashRng{}}
	for i := 1; i <= 6; i++ {
		h.pool = append(h.pool, fmt.Sprintf("n%d", i))
	}
	// labels: 3 zones, racks nested in zones (two per zone), every host distinct
	zones := g.Range(2, 4)
	for i, n := range h.pool {
		z := i % zones
		h.labels[nodeInternal(n)] = map[string]string{"zone": fmt.Sprintf("z%d", z), "rack": fmt.Sprintf("z%d-r%d", z, (i/zones)%2), "host": n}
	}
	crossed := false
	if lg := NewRng(r.Seed, "crossed-labels"); lg.Chance(30) {
		crossed = true
		// rack names that are not nested in zones (the same rack number exists in several zones): whether a
		// placement with both rules exists then depends on which server is picked first
		if lg.Chance(50) {
			for _, n := range h.pool {
				h.labels[nodeInternal(n)]["rack"] = fmt.Sprintf("r%d", lg.Intn(3))
			}
			r.Knobs["labels"] = "racks cross zones"
		} else {
			// two zones, racks shifted against them: with n1..n3 in the configuration, n3 shares its zone
			// with n1 and its rack with n2, while n1 and n2 differ in both
			for i, n := range h.pool {
				h.labels[nodeInternal(n)]["zone"] = fmt.Sprintf("z%d", i%2)
				h.labels[nodeInternal(n)]["rack"] = fmt.Sprintf("r%d", ((i+1)/2)%3)
			}
			r.Knobs["labels"] = "two zones, racks shifted against them"
		}
	}
	nInitial := g.Range(3, 5)
	maxShards := 8
	steps := g.Range(4, 14)
	if r.Tier == "thorough" {
		maxShards = 16
		steps = g.Range(4, 40)
	}
	r.Knobs["plan_size"] = steps
	mkNs := func(gi *Rng, name string, servers int) model.NamespaceConfig {
		rf := uint32(gi.Range(1, 3))
		if int(rf) > servers && gi.Chance(90) {
			rf = uint32(servers)
		}
		nc := model.NamespaceConfig{Name: name, InitialShardCount: uint32(gi.Range(1, maxShards)), ReplicationFactor: rf}
		switch gi.Intn(5) {
		case 0:
			nc.Policies = &policies.Policies{AntiAffinities: []policies.AntiAffinity{{Labels: []string{"zone"}, Mode: policies.Strict}}}
		case 1:
			nc.Policies = &policies.Policies{AntiAffinities: []policies.AntiAffinity{{Labels: []string{"zone"}, Mode: policies.Strict}, {Labels: []string{"rack"}, Mode: policies.Strict}}}
		case 2:
			nc.Policies = &policies.Policies{AntiAffinities: []policies.AntiAffinity{{Labels: []string{"rack"}, Mode: policies.Strict}, {Labels: []string{"host"}, Mode: policies.Strict}}}
		}
		if crossed && servers >= 2 && gi.Chance(50) {
			// two rules over labels that are not nested, two replicas: some first picks leave no second server
			nc.ReplicationFactor = 2
			nc.Policies = &policies.Policies{AntiAffinities: []policies.AntiAffinity{{Labels: []string{"zone"}, Mode: policies.Strict}, {Labels: []string{"rack"}, Mode: policies.Strict}}}
		}
		return nc
	}
	cl := NewCluster(w, h.pool[:nInitial], []model.NamespaceConfig{mkNs(g, "default", nInitial)})
	h.cl = cl
	cl.NodeNames = h.pool // every node of the pool runs from the start
	cl.Config.ServerMetadata = map[string]model.ServerMetadata{}
	for _, n := range h.pool[:nInitial] {
		cl.Config.ServerMetadata[nodeInternal(n)] = model.ServerMetadata{Labels: h.labels[nodeInternal(n)]}
	}
	h.configs = append(h.configs, cloneConfig(cl.Config))
	h.configAt = append(h.configAt, 0)
	h.nsEpoch["default"] = 1
	h.prog = append(h.prog, fmt.Sprintf("initial: servers %v, %s", h.pool[:nInitial], descNs(cl.Config.Namespaces[0])))
	cl.Meta.OnStore = h.onStore
	w.Net.Tap = h.tap
	defer func() { w.Net.Tap = nil }()
	cl.StartNodes()
	cl.StartCoordinator()
	ctl := w.Endpoint("ctl")
	r.Sample = &h.prog
	removed := []string{}
	nsCounter := 0
	ok := w.RunScript(ctl, 8*time.Hour, func() {
		time.Sleep(5 * time.Second)
		for i := 0; i < steps && !r.Failed(); i++ {
			if !r.KeepItem(i) {
				continue
			}
			gi := NewRng(r.Seed, "cfgstep", i)
			cfg := h.current()
			inCluster := map[string]bool{}
			for _, s := range cfg.Servers {
				inCluster[nodeOfAddr(s.GetIdentifier())] = true
			}
			switch k := gi.Intn(100); {
			case k < 25: // new namespace, or a removed name again with another shape
				name := fmt.Sprintf("ns%d", nsCounter)
				if len(removed) > 0 && gi.Chance(60) {
					name = removed[gi.Intn(len(removed))]
				} else {
					nsCounter++
				}
				exists := false
				for _, nc := range cfg.Namespaces {
					exists = exists || nc.Name == name
				}
				if exists {
					continue
				}
				nc := mkNs(gi, name, len(cfg.Servers))
				cfg.Namespaces = append(cfg.Namespaces, nc)
				h.mu.Lock()
				h.nsEpoch[name]++
				h.mu.Unlock()
				h.install(cfg, "add "+descNs(nc))
				r.Count("namespaces_added", 1)
			case k < 32 && len(h.clients) > 0: // re-create a followed namespace at once with another shard count
				c := h.clients[gi.Intn(len(h.clients))]
				j := -1
				for x, nc := range cfg.Namespaces {
					if nc.Name == c.ns {
						j = x
					}
				}
				if j < 0 || len(cfg.Namespaces) < 2 {
					continue
				}
				oldNc := cfg.Namespaces[j]
				cfg.Namespaces = append(append([]model.NamespaceConfig{}, cfg.Namespaces[:j]...), cfg.Namespaces[j+1:]...)
				h.install(cfg, "remove namespace "+c.ns+" (to be re-created)")
				gone := false
				for t := 0; t < 1200 && !gone; t++ {
					time.Sleep(50 * time.Millisecond)
					if cur := cl.Meta.Current(); cur != nil {
						_, still := cur.Namespaces[c.ns]
						gone = !still
					}
				}
				if !gone {
					removed = append(removed, c.ns)
					continue
				}
				time.Sleep(time.Duration(gi.Range(0, 150)) * time.Millisecond)
				nc := oldNc
				nc.InitialShardCount = uint32(gi.Range(1, 3))
				if gi.Chance(30) {
					nc.InitialShardCount = uint32(gi.Range(1, maxShards))
				}
				cfg = h.current()
				cfg.Namespaces = append(cfg.Namespaces, nc)
				h.mu.Lock()
				h.nsEpoch[c.ns]++
				h.mu.Unlock()
				h.install(cfg, "re-create "+descNs(nc))
				r.Count("namespaces_recreated_at_once", 1)
			case k < 40: // remove a namespace
				if len(cfg.Namespaces) < 2 {
					continue
				}
				j := gi.Intn(len(cfg.Namespaces))
				name := cfg.Namespaces[j].Name
				cfg.Namespaces = append(append([]model.NamespaceConfig{}, cfg.Namespaces[:j]...), cfg.Namespaces[j+1:]...)
				removed = append(removed, name)
				h.install(cfg, "remove namespace "+name)
				r.Count("namespaces_removed", 1)
			case k < 55: // add a server
				var out []string
				for _, n := range h.pool {
					if !inCluster[n] {
						out = append(out, n)
					}
				}
				if len(out) == 0 {
					continue
				}
				n := out[gi.Intn(len(out))]
				cfg.Servers = append(cfg.Servers, serverOf(n))
				cfg.ServerMetadata[nodeInternal(n)] = model.ServerMetadata{Labels: h.labels[nodeInternal(n)]}
				h.install(cfg, "add server "+n)
				r.Count("servers_added", 1)
			case k < 68: // remove a server
				if len(cfg.Servers) <= 2 {
					continue
				}
				j := gi.Intn(len(cfg.Servers))
				n := nodeOfAddr(cfg.Servers[j].GetIdentifier())
				cfg.Servers = append(append([]model.Server{}, cfg.Servers[:j]...), cfg.Servers[j+1:]...)
				delete(cfg.ServerMetadata, nodeInternal(n))
				what := "remove server " + n
				if gi.Chance(40) {
					// the server is taken out because it is unreachable: moving its replicas away cannot
					// tell it to delete its shards for a while
					others := append([]string{"coord"}, h.pool...)
					for _, o := range others {
						if o != n {
							w.Net.Partition(n, o)
							w.Net.Partition(o, n)
						}
					}
					d := time.Duration(gi.Range(2000, 40000)) * time.Millisecond
					h.mu.Lock()
					h.cutUntil[n] = r.Now() + d
					h.mu.Unlock()
					w.Net.After(d, fmt.Sprintf("heal-removed/%d", i), func() {
						for _, o := range others {
							w.Net.Heal(n, o)
							w.Net.Heal(o, n)
						}
					})
					what += fmt.Sprintf(" (unreachable for %v)", d)
					r.Count("servers_removed_while_unreachable", 1)
				}
				h.install(cfg, what)
				r.Count("servers_removed", 1)
			case k < 71 && len(h.clients) == 0 && len(cfg.Namespaces) > 0: // every namespace goes, the coordinator restarts on the empty status, a namespace comes (back)
				names := []string{}
				for _, nc := range cfg.Namespaces {
					names = append(names, nc.Name)
				}
				cfg.Namespaces = nil
				removed = append(removed, names...)
				h.install(cfg, fmt.Sprintf("remove all namespaces %v", names))
				gone := false
				for t := 0; t < 1200 && !gone; t++ {
					time.Sleep(50 * time.Millisecond)
					if cur := cl.Meta.Current(); cur != nil {
						gone = len(cur.Namespaces) == 0
					}
				}
				if !gone {
					continue
				}
				cl.CrashCoordinator()
				h.mu.Lock()
				h.prog = append(h.prog, "coordinator crash (no namespace left)")
				h.mu.Unlock()
				time.Sleep(time.Duration(gi.Range(100, 3000)) * time.Millisecond)
				name := fmt.Sprintf("ns%d", nsCounter)
				if gi.Chance(50) {
					name = names[gi.Intn(len(names))]
				} else {
					nsCounter++
				}
				for x, rn := range removed {
					if rn == name {
						removed = append(removed[:x], removed[x+1:]...)
						break
					}
				}
				nc := mkNs(gi, name, len(cfg.Servers))
				cfg = h.current()
				cfg.Namespaces = append(cfg.Namespaces, nc)
				h.mu.Lock()
				h.nsEpoch[name]++
				h.mu.Unlock()
				if gi.Chance(50) {
					// the new configuration is already in place when the coordinator comes back
					h.install(cfg, "add "+descNs(nc)+" (coordinator down)")
					cl.StartCoordinator()
				} else {
					cl.StartCoordinator()
					time.Sleep(time.Duration(gi.Range(50, 2000)) * time.Millisecond)
					h.install(cfg, "add "+descNs(nc))
				}
				r.Count("restarts_on_empty_status", 1)
			case k < 75: // coordinator crash + restart
				cl.CrashCoordinator()
				h.mu.Lock()
				h.prog = append(h.prog, "coordinator crash")
				h.mu.Unlock()
				time.Sleep(time.Duration(gi.Range(100, 5000)) * time.Millisecond)
				cl.StartCoordinator()
				r.Count("coordinator_restarts", 1)
			case k < 90: // a long-lived client follows one namespace through one node
				if len(h.clients) >= 4 || len(cfg.Namespaces) == 0 {
					continue
				}
				ns := cfg.Namespaces[gi.Intn(len(cfg.Namespaces))].Name
				node := nodeOfAddr(cfg.Servers[gi.Intn(len(cfg.Servers))].GetIdentifier())
				c := &cfgClient{name: fmt.Sprintf("client%d", len(h.clients)), ns: ns, node: node, epoch: h.epochOf(ns)}
				c.ep = w.Endpoint(c.name)
				done := make(chan struct{})
				c.ep.Go(func() {
					defer close(done)
					pool := commonrpc.NewClientPool(nil, nil)
					c.sm, c.err = oxia.SimNewShardManager(pool, nodePublic(node), ns, 30*time.Second)
				})
				<-done
				h.mu.Lock()
				h.prog = append(h.prog, fmt.Sprintf("%s follows %q via %s (err=%v)", c.name, ns, node, c.err))
				if c.err == nil {
					h.clients = append(h.clients, c)
					r.Count("clients_started", 1)
				}
				h.mu.Unlock()
			default: // settle and compare clients with the published maps
				time.Sleep(12 * time.Second)
				h.checkClients(fmt.Sprintf("after step %d", i))
			}
			gap := gi.Range(50, 6000)
			if gi.Chance(30) {
				// the next change arrives while the elections and swaps started by this one are still running
				gap = gi.Range(0, 150)
				r.Count("config_changes_back_to_back", 1)
			}
			time.Sleep(time.Duration(gap) * time.Millisecond)
		}
		if r.Failed() {
			return
		}
		if cl.Coord == nil {
			cl.StartCoordinator()
		}
		w.Net.HealAll()
		time.Sleep(30 * time.Second)
		h.checkClients("end of run")
	})
	if !ok && !r.Failed() {
		r.Fail("stuck", "script did not finish: %s", lastN(h.prog, 3))
	}
	for _, c := range h.clients {
		if c.sm != nil {
			_ = c.sm.Close()
		}
	}
	cl.CrashCoordinator()
	for _, n := range h.pool {
		if sn := w.Node(n); sn != nil && !sn.EP.Dead() {
			sn.Stop()
		}
	}
	r.Sig(strings.Join(h.prog, ";"))
	if r.Stat("statuses_checked") > 3 && r.Stat("published_maps_checked") > 3 {
		r.Count("nontrivial", 1)
	}
}

func descNs(nc model.NamespaceConfig) string {
	p := "no policy"
	if nc.Policies != nil {
		var rules []string
		for _, a := range nc.Policies.AntiAffinities {
			rules = append(rules, "["+strings.Join(a.Labels, ",")+"]")
		}
		p = "anti-affinity " + strings.Join(rules, "")
	}
	return fmt.Sprintf("namespace %s (%d shards, rf %d, %s)", nc.Name, nc.InitialShardCount, nc.ReplicationFactor, p)
}

func runC18(r *Run) { runConfigHistory(r, "C18") }
func runC19(r *Run) { runConfigHistory(r, "C19") }

func init() {
	registry["C18"] = runC18
	registry["C19"] = runC19
}
