package oxsim

// C15 (secondary indexes), C16 (sequence keys + subscribers), C17 (notifications):
// W2 workloads with property-specific queries / subscribers on top of the C12 engine.

import (
	"bytes"
	"context"
	"fmt"
	"io"
	"runtime"
	"sort"
	"strings"
	"sync"
	"time"

	"github.com/cockroachdb/pebble"

	"github.com/oxia-db/oxia/proto"
	"github.com/oxia-db/oxia/server"
	"github.com/oxia-db/oxia/server/kv"
)

// ---------------------------------------------------------------- C15

type idxEntry struct{ Sec, Prim string }

func (d *refDB) indexEntries(name string) []idxEntry {
	var out []idxEntry
	for k, r := range d.Recs {
		for _, p := range r.Indexes {
			if p.Index == name {
				out = append(out, idxEntry{p.Secondary, k})
			}
		}
	}
	// de-duplicate (a record may declare the same pair twice)
	sort.Slice(out, func(i, j int) bool {
		if c := refCompare(out[i].Sec, out[j].Sec); c != 0 {
			return c < 0
		}
		return out[i].Prim < out[j].Prim
	})
	var ded []idxEntry
	for i, e := range out {
		if i == 0 || e != out[i-1] {
			ded = append(ded, e)
		}
	}
	return ded
}

var c15Indexes = []string{"idx", "idx-a", "idy"}
var c15SecKeys = []string{"s1", "s2", "s/3", "s2/x", "t", "a", "zz", "s", "s0", "u/v/w"}

func (wl *w2Workload) checkIndexQueries(g *Rng, n int) {
	if _, _, err := wl.c.foldNew(); err != nil {
		wl.fail("log-error", "%v", err)
		return
	}
	m := wl.c.model
	for q := 0; q < n && !wl.r.Failed(); q++ {
		name := c15Indexes[g.Intn(len(c15Indexes))]
		ents := m.indexEntries(name)
		var secs []string
		for i, e := range ents {
			if i == 0 || e.Sec != ents[i-1].Sec {
				secs = append(secs, e.Sec)
			}
		}
		switch g.Intn(3) {
		case 0: // list + range scan
			a, b := c15SecKeys[g.Intn(len(c15SecKeys))], c15SecKeys[g.Intn(len(c15SecKeys))]
			if refCompare(a, b) > 0 {
				a, b = b, a
			}
			if g.Chance(20) {
				a = "" // open start: everything of this index below b, and nothing of any other index
				wl.r.Count("index_ranges_open_start", 1)
			}
			var want []string
			for _, e := range ents {
				if (a == "" || refCompare(e.Sec, a) >= 0) && refCompare(e.Sec, b) < 0 {
					want = append(want, e.Prim)
				}
			}
			got, err := wl.c.list(a, b, &name)
			if err != nil {
				wl.fail("index-query-error", "list on index %q [%q,%q): %v", name, a, b, err)
				return
			}
			if !sameMultiset(got, want) {
				wl.fail("index-list-mismatch", "list on index %q [%q,%q) = %q, reference %q", name, a, b, got, want)
				return
			}
			rs, err := wl.c.rangeScan(a, b, &name)
			if err != nil {
				wl.fail("index-query-error", "range-scan on index %q [%q,%q): %v", name, a, b, err)
				return
			}
			var gotK []string
			for _, gr := range rs {
				gotK = append(gotK, strp(gr.Key))
				if rec, ok := m.Recs[strp(gr.Key)]; ok && gr.Status == proto.Status_OK {
					if !bytes.Equal(gr.Value, rec.Value) || eqVersion(gr.Version, refVersionProto(rec)) != "" {
						wl.fail("index-scan-mismatch", "range-scan on index %q: record %q differs from the model", name, strp(gr.Key))
						return
					}
				}
			}
			if !sameMultiset(gotK, want) {
				wl.fail("index-scan-mismatch", "range-scan on index %q [%q,%q) = %q, reference %q", name, a, b, gotK, want)
				return
			}
			wl.r.Count("index_ranges_checked", 1)
		default: // comparison get
			key := c15SecKeys[g.Intn(len(c15SecKeys))]
			ct := proto.KeyComparisonType(g.Intn(5))
			wantSec := refLookup(secs, key, ct)
			grs, err := wl.c.read(&proto.GetRequest{Key: key, IncludeValue: true, ComparisonType: ct, SecondaryIndexName: &name})
			if err != nil || len(grs) != 1 {
				wl.fail("index-query-error", "get(%q,%v) on index %q: %v", key, ct, name, err)
				return
			}
			gr := grs[0]
			if wantSec == "" {
				if gr.Status != proto.Status_KEY_NOT_FOUND {
					wl.fail("index-get-mismatch", "get(%q,%v) on index %q returned %v key=%s sec=%s, reference: not found (index has %v)", key, ct, name, gr.Status, strp(gr.Key), strp(gr.SecondaryIndexKey), secs)
					return
				}
				wl.r.Count("index_gets_checked", 1)
				if len(ents) == 0 || (ct != proto.KeyComparisonType_EQUAL) {
					wl.r.Count("index_edge_probe", 1)
				}
				continue
			}
			if gr.Status != proto.Status_OK {
				wl.fail("index-get-mismatch", "get(%q,%v) on index %q returned %v, reference secondary key %q", key, ct, name, gr.Status, wantSec)
				return
			}
			if strp(gr.SecondaryIndexKey) != wantSec {
				wl.fail("index-get-mismatch", "get(%q,%v) on index %q returned secondary key %s (primary %s), reference %q", key, ct, name, strp(gr.SecondaryIndexKey), strp(gr.Key), wantSec)
				return
			}
			ok := false
			for _, e := range ents {
				if e.Sec == wantSec && e.Prim == strp(gr.Key) {
					ok = true
				}
			}
			if !ok {
				wl.fail("index-get-mismatch", "get(%q,%v) on index %q returned primary %s which does not declare (%q,%q)", key, ct, name, strp(gr.Key), name, wantSec)
				return
			}
			if rec := m.Recs[strp(gr.Key)]; rec != nil && (!bytes.Equal(gr.Value, rec.Value) || eqVersion(gr.Version, refVersionProto(rec)) != "") {
				wl.fail("index-get-mismatch", "get on index %q: record %s differs from the model", name, strp(gr.Key))
				return
			}
			wl.r.Count("index_gets_checked", 1)
		}
	}
}

func sameMultiset(a, b []string) bool {
	if len(a) != len(b) {
		return false
	}
	x := append([]string(nil), a...)
	y := append([]string(nil), b...)
	sort.Strings(x)
	sort.Strings(y)
	return strings.Join(x, "\x00") == strings.Join(y, "\x00")
}

func runC15(r *Run) {
	wl := newW2(r, "c15", w2Opts{sessions: true, indexes: true, restarts: true})
	defer wl.w.Close()
	g := wl.g
	nops := g.Range(8, 40)
	if r.Tier == "thorough" {
		nops = g.Range(8, 100)
	}
	r.Knobs["plan_size"] = nops
	r.Sample = &wl.prog
	ok := wl.w.RunScript(wl.c.ctl, 4*time.Hour, func() {
		if err := wl.c.elect(); err != nil {
			wl.fail("elect-error", "%v", err)
			return
		}
		for i := 0; i < nops && !r.Failed(); i++ {
			if !r.KeepItem(i) {
				continue
			}
			gi := NewRng(r.Seed, "c15op", i)
			k := gi.Intn(100)
			switch {
			case k < 6:
				wl.createSession(300000)
			case k < 10 && len(wl.sessions) > 0:
				if id := wl.sessions[gi.Intn(len(wl.sessions))]; !wl.closed[id] {
					wl.closeSession(id)
				}
			case k < 15:
				wl.restart()
			default:
				req := wl.genRequest(gi)
				// make most puts carry indexes
				for _, p := range req.Puts {
					if len(p.SecondaryIndexes) == 0 && gi.Chance(60) {
						p.SecondaryIndexes = append(p.SecondaryIndexes, &proto.SecondaryIndex{IndexName: c15Indexes[gi.Intn(3)], SecondaryKey: c15SecKeys[gi.Intn(len(c15SecKeys))]})
					}
				}
				wl.doWrite(req)
			}
			if !r.Failed() {
				wl.checkIndexQueries(gi, 4)
			}
			if !r.Failed() && gi.Chance(25) {
				wl.checkDump(fmt.Sprintf("after op %d", i)) // index entries == pairs declared by live records
			}
		}
		if !r.Failed() {
			wl.checkDump("final")
		}
	})
	if !ok && !r.Failed() {
		r.Fail("stuck", "script did not finish: %s", lastOf(wl.prog))
	}
	wl.c.node.Stop()
	r.Sig(strings.Join(wl.prog, ";"))
	if r.Stat("index_gets_checked")+r.Stat("index_ranges_checked") > 5 {
		r.Count("nontrivial", 1)
	}
}

// ---------------------------------------------------------------- C16

type seqSubscriber struct {
	genAtSubscribe int // keys generated for the prefix before this subscription was established
	prefix string
	mu     sync.Mutex
	last   string
	n      int
	cancel context.CancelFunc
	done   chan struct{}
	err    error
}

func (wl *w2Workload) subscribeSeq(prefix string) *seqSubscriber {
	ctx, cancel := context.WithCancel(context.Background())
	s := &seqSubscriber{prefix: prefix, cancel: cancel, done: make(chan struct{})}
	cl := wl.c.client()
	wl.c.ctl.Go(func() {
		defer close(s.done)
		st, err := cl.GetSequenceUpdates(ctx, &proto.GetSequenceUpdatesRequest{Shard: wl.c.shard, Key: prefix})
		if err != nil {
			s.err = err
			return
		}
		for {
			u, err := st.Recv()
			if err != nil {
				if err != io.EOF {
					s.err = err
				}
				return
			}
			s.mu.Lock()
			s.last = u.HighestSequenceKey
			s.n++
			s.mu.Unlock()
		}
	})
	return s
}

func (d *refDB) highestSeqKey(prefix string) string {
	best := ""
	for k := range d.Recs {
		if strings.HasPrefix(k, prefix+"-") {
			if _, ok := seqSuffixes(prefix, k); ok && (best == "" || refCompare(k, best) > 0) {
				best = k
			}
		}
	}
	return best
}

func runC16(r *Run) {
	wl := newW2(r, "c16", w2Opts{sequences: true, restarts: false})
	defer wl.w.Close()
	g := wl.g
	nops := g.Range(6, 40)
	if r.Tier == "thorough" {
		nops = g.Range(6, 100)
	}
	r.Knobs["plan_size"] = nops
	r.Sample = &wl.prog
	// three prefixes per run out of a pool with mixed '/'-depths, plus neighbour names whose
	// well-formed "-<digits>" keys sort right next to a prefix's key range in the engine's order
	pool := []string{"seq", "seq/a", "q", "/t/a/x", "t/a", "r/s/t", "/q", "seq/a/b"}
	prefixes := []string{"seq", "seq/a", "q"}
	if g.Chance(70) {
		prefixes = nil
		for len(prefixes) < 3 {
			c := pool[g.Intn(len(pool))]
			dup := false
			for _, x := range prefixes {
				dup = dup || x == c
			}
			if !dup {
				prefixes = append(prefixes, c)
			}
		}
	}
	wl.seqPrefixes = prefixes
	if g.Chance(30) {
		// key-change notifications switched off for the shard (a valid namespace setting): sequence
		// updates are a separate stream and must keep flowing
		wl.c.notifChooser = func(int64) bool { return false }
		r.Knobs["notifications"] = "off"
		r.Count("runs_with_notifications_off", 1)
	}
	neighbours := append(append([]string{}, pool...), "z", "t", "/t/b", "/t/a", "seq/b", "u/v", "r/s", "/r")
	r.Knobs["prefixes"] = strings.Join(prefixes, ",")
	subs := map[string][]*seqSubscriber{} // several concurrent subscribers per prefix
	lastGenerated := map[string]string{} // prefix -> latest generated key (per the committed log)
	genCount := map[string]int{}
	ok := wl.w.RunScript(wl.c.ctl, 4*time.Hour, func() {
		if err := wl.c.elect(); err != nil {
			wl.fail("elect-error", "%v", err)
			return
		}
		for i := 0; i < nops && !r.Failed(); i++ {
			if !r.KeepItem(i) {
				continue
			}
			gi := NewRng(r.Seed, "c16op", i)
			k := gi.Intn(100)
			switch {
			case k < 12: // subscribe (up to three concurrent subscribers per prefix)
				p := prefixes[gi.Intn(3)]
				if len(subs[p]) < 3 {
					sb := wl.subscribeSeq(p)
					subs[p] = append(subs[p], sb)
					wl.prog = append(wl.prog, "subscribe "+p)
					r.Count("subscriptions", 1)
					time.Sleep(100 * time.Millisecond) // let the subscription get established
					sb.genAtSubscribe = genCount[p]
					if len(subs[p]) > 1 {
						r.Count("concurrent_subscribers_same_prefix", 1)
					}
				}
			case k < 18: // one subscriber (not necessarily the latest) goes away
				p := prefixes[gi.Intn(3)]
				if l := subs[p]; len(l) > 0 {
					j := gi.Intn(len(l))
					l[j].cancel()
					<-l[j].done
					subs[p] = append(append([]*seqSubscriber{}, l[:j]...), l[j+1:]...)
					wl.prog = append(wl.prog, fmt.Sprintf("unsubscribe %s #%d", p, j))
				}
			case k < 30: // delete the current maximum of a prefix
				p := prefixes[gi.Intn(3)]
				if hk := wl.c.model.highestSeqKey(p); hk != "" {
					wl.doWrite(&proto.WriteRequest{Deletes: []*proto.DeleteRequest{{Key: hk}}})
					r.Count("deleted_current_max", 1)
				}
			case k < 40: // plain put into the suffix space (well-formed suffix)
				p := prefixes[gi.Intn(3)]
				if gi.Chance(50) {
					p = neighbours[gi.Intn(len(neighbours))]
				}
				key := fmt.Sprintf("%s-%020d", p, gi.Range(1, 40))
				wl.doWrite(&proto.WriteRequest{Puts: []*proto.PutRequest{{Key: key, Value: []byte("plain")}}})
			case k < 46:
				time.Sleep(time.Duration(gi.Range(1, 500)) * time.Millisecond)
			default:
				req := &proto.WriteRequest{}
				inReq := map[string]int{}
				n := gi.Range(1, 4)
				for j := 0; j < n; j++ {
					if gi.Chance(75) {
						req.Puts = append(req.Puts, wl.genSeqPut(gi, inReq))
					} else {
						req.Puts = append(req.Puts, wl.genPut(gi))
					}
				}
				before := map[string]bool{}
				for key := range wl.c.model.Recs {
					before[key] = true
				}
				if wl.doWrite(req) {
					for _, gk := range wl.c.model.LastApplied.GeneratedKeys {
						if before[gk] {
							wl.fail("sequence-overwrite", "generated key %q already existed", gk)
						}
						for _, p := range prefixes {
							if _, ok := seqSuffixes(p, gk); ok && strings.HasPrefix(gk, p+"-") {
								// strictly greater than every key of the prefix that existed before
								for key := range before {
									if strings.HasPrefix(key, p+"-") && refCompare(key, gk) >= 0 {
										if _, wf := seqSuffixes(p, key); wf {
											wl.fail("sequence-not-increasing", "generated key %q is not greater than existing key %q", gk, key)
										}
									}
								}
								lastGenerated[p] = gk
								genCount[p]++
							}
						}
						before[gk] = true
						r.Count("sequence_keys_generated", 1)
					}
				}
			}
		}
		if r.Failed() {
			return
		}
		// every subscriber that stayed connected eventually observes the latest generated key
		time.Sleep(30 * time.Second)
		for p, l := range subs {
			for j, s := range l {
				s.mu.Lock()
				last, n := s.last, s.n
				s.mu.Unlock()
				if s.err != nil {
					wl.fail("subscriber-error", "sequence subscriber #%d on %q failed: %v", j, p, s.err)
					continue
				}
				// only keys generated after the subscription was established are owed to the subscriber
				if want := lastGenerated[p]; genCount[p] > s.genAtSubscribe && last != want {
					wl.fail("subscriber-stale", "subscriber #%d of %d on %q last saw %q after 30s, but %q was generated after it subscribed (%d updates received)", j, len(l), p, last, want, n)
				}
				r.Count("subscribers_checked", 1)
				s.cancel()
			}
		}
		if !r.Failed() {
			wl.checkDump("final")
		}
	})
	if !ok && !r.Failed() {
		r.Fail("stuck", "script did not finish: %s", lastOf(wl.prog))
	}
	wl.c.node.Stop()
	r.Sig(strings.Join(wl.prog, ";"))
	if r.Stat("sequence_keys_generated") > 3 {
		r.Count("nontrivial", 1)
	}
}

// ---------------------------------------------------------------- C17

type notifSubscriber struct {
	id      int
	start   *int64 // explicit start offset (exclusive) or nil = "now"
	mu      sync.Mutex
	batches []*proto.NotificationBatch
	cancel  context.CancelFunc
	done    chan struct{}
	err     error
	attachedCommit int64 // model commit offset when the subscription was opened
	openedAtMs     int64 // simulated wall clock when the stream was opened
}

func (wl *w2Workload) subscribeNotifs(id int, start *int64) *notifSubscriber {
	ctx, cancel := context.WithCancel(context.Background())
	s := &notifSubscriber{id: id, start: start, cancel: cancel, done: make(chan struct{}), openedAtMs: time.Now().UnixMilli()}
	cl := wl.c.client()
	wl.c.ctl.Go(func() {
		defer close(s.done)
		st, err := cl.GetNotifications(ctx, &proto.NotificationsRequest{Shard: wl.c.shard, StartOffsetExclusive: start})
		if err != nil {
			s.err = err
			return
		}
		for {
			nb, err := st.Recv()
			if err != nil {
				if err != io.EOF && ctx.Err() == nil {
					s.err = err
				}
				return
			}
			s.mu.Lock()
			s.batches = append(s.batches, nb)
			s.mu.Unlock()
		}
	})
	return s
}

// owed tells whether the batch of a committed offset was still inside the retention time
// (with a margin for the delivery itself) when the subscriber opened its stream.
func (wl *w2Workload) owed(s *notifSubscriber, off int64) bool {
	if wl.notifRetention <= 0 {
		return true
	}
	margin := int64(3000)
	if int64(wl.c.model.NotifTs[off])+wl.notifRetention.Milliseconds() > s.openedAtMs+margin {
		return true
	}
	wl.r.Count("notif_skipped_beyond_retention", 1)
	return false
}

// checkNotifStream validates what a subscriber received against the model's per-offset batches.
func (wl *w2Workload) checkNotifStream(s *notifSubscriber, final bool) {
	m := wl.c.model
	s.mu.Lock()
	bs := append([]*proto.NotificationBatch(nil), s.batches...)
	s.mu.Unlock()
	resume := int64(-2)
	if s.start != nil {
		resume = *s.start
	}
	prev := int64(-2)
	first := true
	for i, nb := range bs {
		if s.start == nil && i == 0 {
			// positioning batch: carries the commit offset at subscription time, no notifications
			if len(nb.Notifications) != 0 {
				wl.fail("notif-dummy-not-empty", "subscriber %d: first positioning batch carries notifications", s.id)
				return
			}
			resume = nb.Offset
			prev = nb.Offset
			continue
		}
		if prev != -2 && nb.Offset <= prev {
			wl.fail("notif-order", "subscriber %d: batch offset %d after %d (not strictly increasing)", s.id, nb.Offset, prev)
			return
		}
		want, ok := m.Notifs[nb.Offset]
		if !ok {
			wl.fail("notif-uncommitted", "subscriber %d: received a batch for offset %d which is not a committed write request in the log", s.id, nb.Offset)
			return
		}
		if msg := compareNotifBatch(nb, nb.Offset, m.Shard, m.NotifTs[nb.Offset], want); msg != "" {
			wl.fail("notif-content", "subscriber %d: %s", s.id, msg)
			return
		}
		// no gap: every committed offset between resume point and this one must have been delivered
		lo := prev
		if first {
			lo = resume
		}
		for off := lo + 1; off < nb.Offset; off++ {
			if _, committed := m.Notifs[off]; committed && wl.owed(s, off) {
				wl.fail("notif-gap", "subscriber %d (resume after %d): batch for committed offset %d was skipped (got %d next)", s.id, resume, off, nb.Offset)
				return
			}
		}
		first = false
		prev = nb.Offset
	}
	if final && s.err == nil {
		// completeness at the end: everything committed after the resume point has arrived
		lo := prev
		if first {
			lo = resume
		}
		if lo >= -1 {
			for off := lo + 1; off <= m.CommitOffset; off++ {
				if _, committed := m.Notifs[off]; committed && wl.owed(s, off) {
					wl.fail("notif-missing", "subscriber %d (resume after %d): committed offset %d never delivered (last delivered %d, commit offset %d)", s.id, resume, off, prev, m.CommitOffset)
					return
				}
			}
		}
	}
	wl.r.Count("notif_batches_checked", int64(len(bs)))
}

// trimHold: the directed schedule "a write commits while a trimming round is in progress" (see runC17).
var trimHold struct {
	mu    sync.Mutex
	armed bool
	ch    chan struct{}
	hold  time.Duration
}

func inTrimmerGoroutine() bool {
	var pcs [32]uintptr
	n := runtime.Callers(2, pcs[:])
	fr := runtime.CallersFrames(pcs[:n])
	for {
		f, more := fr.Next()
		if strings.Contains(f.Function, "notificationsTrimmer") {
			return true
		}
		if !more {
			return false
		}
	}
}

func runC17(r *Run) {
	trimHold.mu.Lock()
	trimHold.armed = false
	trimHold.mu.Unlock()
	kv.SimBeforeCommit = func(*pebble.DB) {
		trimHold.mu.Lock()
		if !trimHold.armed || !inTrimmerGoroutine() {
			trimHold.mu.Unlock()
			return
		}
		trimHold.armed = false
		ch, d := trimHold.ch, trimHold.hold
		trimHold.mu.Unlock()
		close(ch)
		time.Sleep(d)
	}
	defer func() { kv.SimBeforeCommit = nil }()
	// retention: an hour (nothing is trimmed within a run) or short enough for trimming rounds
	// to run between the operations of the program
	rg := NewRng(r.Seed, "c17-retention")
	retention := time.Hour
	if rg.Chance(55) {
		retention = []time.Duration{10 * time.Second, 30 * time.Second, 90 * time.Second}[rg.Intn(3)]
	}
	wl := newW2(r, "c17", w2Opts{sessions: true, indexes: true, sequences: true, bigRanges: true, restarts: true,
		cfgMod: func(c *server.Config) { c.NotificationsRetentionTime = retention },
		netMod: func(nc *NetConfig) {
			// a stream Send that returns late: writes commit while a subscriber's first batch is on its way
			if lg := NewRng(r.Seed, "c17-late-send"); lg.Chance(60) {
				nc.LateSendPct = lg.Range(10, 60)
				nc.LateSendMax = time.Duration(lg.Range(500, 8000)) * time.Microsecond
			}
			r.Knobs["late_send"] = fmt.Sprintf("%d%%/%v", nc.LateSendPct, nc.LateSendMax)
		}})
	defer wl.w.Close()
	wl.notifRetention = retention
	r.Knobs["notif_retention"] = retention.String()
	g := wl.g
	nops := g.Range(6, 40)
	if r.Tier == "thorough" {
		nops = g.Range(6, 100)
	}
	r.Knobs["plan_size"] = nops
	r.Sample = &wl.prog
	var subs []*notifSubscriber
	var finished []*notifSubscriber
	ok := wl.w.RunScript(wl.c.ctl, 4*time.Hour, func() {
		if err := wl.c.elect(); err != nil {
			wl.fail("elect-error", "%v", err)
			return
		}
		nextID := 0
		for i := 0; i < nops && !r.Failed(); i++ {
			if !r.KeepItem(i) {
				continue
			}
			gi := NewRng(r.Seed, "c17op", i)
			k := gi.Intn(100)
			switch {
			case k < 6: // subscribe from "now"
				nextID++
				subs = append(subs, wl.subscribeNotifs(nextID, nil))
				wl.prog = append(wl.prog, "subscribe-now")
				time.Sleep(50 * time.Millisecond)
			case k < 10: // subscribe from "now" while a burst of writes is committing
				nw := gi.Range(2, 6)
				burstDone := make(chan error, 1)
				wl.c.ctl.Go(func() {
					var first error
					for j := 0; j < nw; j++ {
						_, err := wl.c.write(&proto.WriteRequest{Puts: []*proto.PutRequest{{Key: c12Keys[(i+j)%len(c12Keys)], Value: []byte(fmt.Sprintf("burst-%d-%d", i, j))}}})
						if err != nil && first == nil {
							first = err
						}
					}
					burstDone <- first
				})
				time.Sleep(time.Duration(gi.Range(0, 3000)) * time.Microsecond)
				nextID++
				subs = append(subs, wl.subscribeNotifs(nextID, nil))
				if err := <-burstDone; err != nil {
					wl.fail("write-error", "write in a burst failed: %v", err)
					return
				}
				if _, _, err := wl.c.foldNew(); err != nil {
					wl.fail("log-missing", "fold after a burst: %v", err)
					return
				}
				wl.prog = append(wl.prog, fmt.Sprintf("subscribe-now during a burst of %d writes", nw))
				r.Count("subscriptions_opened_during_writes", 1)
				time.Sleep(50 * time.Millisecond)
			case k < 18: // subscribe from an explicit offset
				if _, _, err := wl.c.foldNew(); err == nil && wl.c.model.CommitOffset >= 0 {
					off := int64(gi.Range(-1, int(wl.c.model.CommitOffset)))
					nextID++
					subs = append(subs, wl.subscribeNotifs(nextID, &off))
					wl.prog = append(wl.prog, fmt.Sprintf("subscribe-from %d", off))
				}
			case k < 26 && len(subs) > 0: // disconnect and resume with the last offset seen
				j := gi.Intn(len(subs))
				s := subs[j]
				time.Sleep(100 * time.Millisecond)
				s.cancel()
				<-s.done
				wl.c.foldNew()
				wl.checkNotifStream(s, false)
				s.mu.Lock()
				var last *int64
				if n := len(s.batches); n > 0 {
					last = ptr(s.batches[n-1].Offset)
				} else if s.start != nil {
					last = s.start
				}
				s.mu.Unlock()
				finished = append(finished, s)
				subs = append(subs[:j], subs[j+1:]...)
				if last != nil {
					nextID++
					subs = append(subs, wl.subscribeNotifs(nextID, last))
					wl.prog = append(wl.prog, fmt.Sprintf("resume-after %d", *last))
					r.Count("resumes", 1)
				}
			case k < 32: // leader change (restart + new term): subscribers reconnect with their last offset
				var resume []*int64
				for _, s := range subs {
					s.cancel()
					<-s.done
					s.mu.Lock()
					if n := len(s.batches); n > 0 {
						resume = append(resume, ptr(s.batches[n-1].Offset))
					} else if s.start != nil {
						resume = append(resume, s.start)
					}
					s.mu.Unlock()
					finished = append(finished, s)
				}
				subs = nil
				if !wl.restart() {
					return
				}
				for _, off := range resume {
					nextID++
					subs = append(subs, wl.subscribeNotifs(nextID, off))
					r.Count("resumes_across_leader_change", 1)
				}
			case k < 38:
				wl.createSession(300000)
			case k >= 86 && k < 90 && retention < time.Hour: // a write that lands inside a trimming round
				// everything stored expires; the next round of the trimmer is held right before it commits
				// its deletion (it has already looked at what is stored) and a write commits meanwhile
				time.Sleep(time.Duration(float64(retention) * 1.05))
				ch := make(chan struct{})
				trimHold.mu.Lock()
				trimHold.armed, trimHold.ch = true, ch
				trimHold.hold = time.Duration(gi.Range(20, 400)) * time.Millisecond
				trimHold.mu.Unlock()
				select {
				case <-ch:
					wl.doWrite(wl.genRequest(gi))
					wl.prog = append(wl.prog, "age "+retention.String()+"+ and write inside the trimming round")
					r.Count("writes_inside_trimming_round", 1)
					time.Sleep(500 * time.Millisecond)
				case <-time.After(retention/5 + 2*time.Second):
					trimHold.mu.Lock()
					trimHold.armed = false
					trimHold.mu.Unlock()
					r.Count("trimming_round_not_seen", 1)
				}
			case k >= 90 && retention < time.Hour: // let batches age (fractions of the retention time)
				d := time.Duration(float64(retention) * []float64{0.15, 0.35, 0.6, 0.8, 1.05}[gi.Intn(5)])
				time.Sleep(d)
				wl.prog = append(wl.prog, "age "+d.String())
				r.Count("aging_sleeps", 1)
			case k < 42 && len(wl.sessions) > 0:
				if id := wl.sessions[gi.Intn(len(wl.sessions))]; !wl.closed[id] {
					wl.closeSession(id)
				}
			default:
				wl.doWrite(wl.genRequest(gi))
			}
		}
		if r.Failed() {
			return
		}
		time.Sleep(30 * time.Second)
		if _, _, err := wl.c.foldNew(); err != nil {
			wl.fail("log-error", "%v", err)
			return
		}
		for _, s := range subs {
			if s.err != nil {
				wl.fail("notif-stream-error", "subscriber %d failed: %v", s.id, s.err)
				return
			}
			wl.checkNotifStream(s, true)
			s.cancel()
			r.Count("subscribers_checked", 1)
		}
		for _, s := range finished {
			wl.checkNotifStream(s, false)
		}
		wl.checkDump("final")
	})
	if !ok && !r.Failed() {
		r.Fail("stuck", "script did not finish: %s", lastOf(wl.prog))
	}
	wl.c.node.Stop()
	r.Sig(strings.Join(wl.prog, ";"))
	if r.Stat("notif_batches_checked") > 3 {
		r.Count("nontrivial", 1)
	}
}

func init() {
	registry["C15"] = runC15
	registry["C16"] = runC16
	registry["C17"] = runC17
}
