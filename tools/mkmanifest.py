#!/usr/bin/env python3
"""Regenerates /verif/MANIFEST.json from tiers.json (claimed checks) and properties.jsonl."""
import json, os
V = os.path.dirname(os.path.dirname(os.path.abspath(__file__)))
tiers = json.load(open(os.path.join(V, "tiers.json")))
props = [json.loads(l) for l in open(os.path.join(V, "properties.jsonl"))]
LEVEL = {
 "C01": ("DESIGN.md §5 C01", "Seeded search over fault sequences (crash with power-loss/kill images, partitions, coordinator crashes, stream breaks, message loss, node swaps, lock-site yields, and a directed schedule that cuts freshly installed leaders off from their peers) on a real cluster; containment of every acknowledged write in every later leader's log, final state == reference fold, replica agreement."),
 "C02": ("DESIGN.md §5 C02", "Same engine with read-heavy concurrent clients on few keys; the recorded invoke/return history (global event stamps, unique values) of each shard is checked with porcupine against a sequential map model, with unknown-outcome writes left pending and the property's deposed-leader clause applied to reads; some reads are sent by clients with an old view of the assignments, also right while a node is becoming leader; plus version-id consistency of all observations."),
 "C03": ("DESIGN.md §5 C03", "Same engine with replication-heavy schedules; every Ack on the wire is checked at the first quiescent point after it was sent against the follower's synced log and the leader's log; a shard-wide ledger of what any node applied as committed (or a quorum acknowledged) is compared with every newly installed leader's log and with everything applied afterwards (a leader's DB offset included); the first node to apply an entry no quorum was seen to acknowledge must find it with a majority; pairwise prefix agreement and byte-identical state after healing."),
 "C04": ("DESIGN.md §5 C04", "Same engine with trigger-placed NewTerm requests (held until the target node is in the middle of an operation) and elections forced over a live busy leader; reported head vs. real log end, log frozen after the fence, no ack in older terms."),
 "C05": ("DESIGN.md §5 C05", "Same engine, election-heavy (coordinator crashes, muted leaders, node swaps, in some runs a term that cannot be stored at a node); monitors on metadata stores and coordination RPCs for durable-before-send, monotonic terms, one leader per term, fenced majority and best in-ensemble head."),
 "C06": ("DESIGN.md §5 C06", "Seeded search over write programs on three real nodes (harness as coordinator) with schedules that split application across routes: live on the leader, follower replay, graceful and crash restarts, leader changes right after pipelined bursts, snapshot installation with random chunk sizes; every replica's DB dump compared with the reference model folded to that replica's commit offset, and replicas at equal offsets byte-wise."),
 "C07": ("DESIGN.md §5 C07", "Seeded search over crash instants (inside concurrent bursts and between operations, leader and followers, power loss or kill) with the Pebble engine on a strict in-memory file system and injected engine flushes; after every restart the DB dump is compared, before any replay, with the reference model folded over entries 0..c of the log (c = stored commit offset, never beyond the node's log), and after replay with the fold to the new offset; a leader that is cut off with a tail only it holds must not apply it when asked to lead again."),
 "C08": ("DESIGN.md §5 C08", "Seeded search over schedules (lock-site yields, latencies, ack order, stream sends that return late) of concurrent writers on a fault-free real 3-node cluster with the real coordinator; wire-level and end-of-run invariants on offsets, responses, apply order and the commit offset."),
 "C09": ("DESIGN.md §5 C09", "Seeded search over generated WAL programs (segment/entry sizes, truncation/trim/reopen placement) run on the real WAL inside a simulated-clock bubble and compared op by op with a list model. Sampling, not proof: a clean batch is evidence that the WAL refines the list model on the explored programs."),
 "C10": ("DESIGN.md §5 C10", "Seeded search over crash images (durable shadow + any subset of unsynced pages, torn page, lost index files) and single mutations of record headers/payload/index files for both formats; the real recovery code reopens and reads each image inside recover(). Evidence that recovery yields a clean prefix or an error on the explored images."),
 "C11": ("DESIGN.md §5 C11", "Seeded search over key sets biased to '/' and block boundaries with flush/compaction/restart schedules on the real Pebble-backed KV, against an independently written sorted reference; comparator laws and the engine's separator/successor contract on sampled triples."),
 "C12": ("DESIGN.md §5 C12", "Seeded search over write-request programs through a real storage node's public RPC handlers (simulated transport, simulated clock) with restarts; every response field, sampled reads and full DB dumps compared with an executable reference model folded over the node's own log."),
 "C13": ("DESIGN.md §5 C13", "Seeded search over unusual-but-valid WriteRequests (18 categories, 1-3 per run) interleaved with ordinary writes, leader changes and crash restarts that force log replay, on three real nodes; oracles: an RPC error for a request that is in the leader's log, failing NewTerm/BecomeLeader on replay, followers whose applied offset stops advancing, ordinary requests failing afterwards. Genuine defects found are listed in known_findings.json by input category and error."),
 "C14": ("DESIGN.md §5 C14", "Seeded search over interleavings of session owners (heartbeats, ephemeral puts, close / silence / late writers), other writers on the same keys and leader changes (graceful and crash restarts) against a real node with real session timers on the simulated clock; the committed log is folded into the reference model and every session-ending entry is audited for 'exactly the owned records', plus timing oracles for early expiry, missing expiry and sessions unknown to a settled leader."),
 "C15": ("DESIGN.md §5 C15", "Seeded search over programs touching three adjacent secondary indexes on a real node; index queries of every kind and the index entries in DB dumps compared with a sorted per-index reference."),
 "C16": ("DESIGN.md §5 C16", "Seeded search over sequence-put programs (multi-put batches, deletes of the maximum, plain puts into the suffix space) with scheduled subscribers on a real node; key arithmetic model plus bounded-liveness check of subscribers."),
 "C17": ("DESIGN.md §5 C17", "Seeded search over write histories with notification subscribers that start, disconnect and resume (also across a restart and new term) on a real node, including a write that commits while a trimming round is in progress and subscriptions opened while a burst of writes commits; streams compared per offset with batches derived by the reference model from the committed log."),
 "C18": ("DESIGN.md §5 C18", "Seeded search over histories of cluster-config changes (namespaces added, removed, re-created at once with another shard count; servers added/removed, also while unreachable; coordinator crashes, also on a status without namespaces; changes arriving back to back) against the real coordinator, real nodes and real client-library shard managers on the simulated transport; every stored status and every assignment message must partition the hash space, shard ids must never be reused, and settled clients must route sampled keys like the published map."),
 "C19": ("DESIGN.md §5 C19", "Same config-history engine with labelled servers and namespaces carrying zero to two strict anti-affinity rules (labels nested or crossing); every new or changed ensemble in every stored status is checked for size, distinctness, membership in the cluster configuration, anti-affinity among configured members, and one-member-at-a-time replacement (the real balancer and selectors make the choices)."),
 "C20": ("DESIGN.md §5 C20", "Seeded search over batching knobs (linger, max requests per batch, request timeout), response chunking, delays and server-side failure placements with the real client library (oxia.NewAsyncClient) on the simulated clock and transport against scripted shard servers; every operation has a result that does not depend on interleaving, so exactly-once completion and 'the result of that very operation' are checked per call, and multi-shard list/scan/comparison-get against a sorted reference."),
}
NOTE = "Trusted base: the simulator (seeded go1.26.8 runtime overlay, synctest bubble clock, simsync mutexes, simulated gRPC transport, disk-durability tracker), the reference model and the oracle code under /verif/sim; Pebble and protobuf are run, not modelled. Findings are relative to the explored seeds/programs."
checks = []
for p in props:
    pid = p["id"]
    if pid not in tiers or pid not in LEVEL:
        continue
    ref, text = LEVEL[pid]
    checks.append({
        "property_id": pid,
        "quick_cmd": "./check %s quick" % pid,
        "thorough_cmd": "./check %s thorough" % pid,
        "evidence_file": "evidence/%s.json" % pid,
        "replay_cmd_template": "./check %s --replay {path}" % pid,
        "engine": "oxsim",
        "level_claimed": {"category": "exploration", "text": text, "design_ref": ref},
        "level_note": NOTE,
        "technique": "deterministic simulation with fault injection: seeded search over schedules/fault sequences of the real code under a simulator; invariants + history checks against a reference model",
    })
claimed = {c["property_id"] for c in checks}
m = {
 "version": 1,
 "setup_cmd": "./check build",
 "hooks": {"guard": "none: seams are applied at build time with `go -overlay` generated from /repo's working tree (build/mkoverlay); nothing verification-specific is committed to /repo",
           "enable": "./check <id> ... regenerates .build/overlay from /repo and compiles sim/ with go1.26.8 -overlay",
           "baseline_off_cmd": "cd /repo && go test -mod=mod -vet=off -count=1 -timeout 25m ./...",
           "source_commits": [], "add_only": True},
 "engines": [{"name": "oxsim", "path": "sim/", "serves_properties": sorted(claimed),
              "kind_free_text": "deterministic simulator for Go: synctest bubble (fake clock, quiescence) + seeded runtime overlay (map/select/rand) + channel-based mutex shim with seeded yield points + in-memory gRPC transport with loss/dup/delay/partition/crash + WAL durability tracker; python driver fans seeds out, minimises (ddmin over plan items) and replays"}],
 "checks": checks,
 "not_applicable": [{"property_id": p["id"], "reason": "check under construction in this session (see DESIGN.md §5); not claimed yet"} for p in props if p["id"] not in claimed],
 "notes": "Genuine defects repaired so far are 'fix:' commits in /repo and listed under 'fixed' in known_findings.json; unrepaired ones are under 'findings' there.",
}
json.dump(m, open(os.path.join(V, "MANIFEST.json"), "w"), indent=1)
print("claimed:", sorted(claimed))
