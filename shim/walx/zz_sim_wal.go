// Overlay-only file (oxsim, DESIGN.md §3.2 S2b): adds declarations, changes none.
package wal

import (
	"time"

	time2 "github.com/oxia-db/oxia/common/time"
)

// SimNewWal is the unexported constructor with clock and trimmer interval.
func SimNewWal(namespace string, shard int64, options *FactoryOptions, provider CommitOffsetProvider,
	clock time2.Clock, trimmerCheckInterval time.Duration) (Wal, error) {
	return newWal(namespace, shard, options, provider, clock, trimmerCheckInterval)
}

// SimLastAppended returns the offset of the last entry appended to the WAL, synced or not.
func SimLastAppended(w Wal) int64 {
	if x, ok := w.(*wal); ok {
		return x.lastAppendedOffset.Load()
	}
	return InvalidOffset
}
