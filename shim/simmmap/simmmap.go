// Package simmmap is an overlay-only stand-in for github.com/edsrzf/mmap-go inside
// oxia's server/wal package (oxsim, DESIGN.md §3.2 S4).  It passes through to the real
// library and reports map / flush / unmap to the simulator, which keeps the
// "known durable" shadow of each segment and can inject msync failures.
package simmmap

import (
	"os"
	"sync"
	"unsafe"

	real "github.com/edsrzf/mmap-go"
)

const (
	RDONLY = real.RDONLY
	RDWR   = real.RDWR
	COPY   = real.COPY
	EXEC   = real.EXEC
	ANON   = real.ANON
)

type MMap []byte

// Hooks are installed by the simulator; all may be nil.
var (
	OnMap   func(path string, m []byte, writable bool)
	OnFlush func(path string, m []byte) error // returning an error fails the Flush (msync not performed)
	OnUnmap func(path string, m []byte)
)

var (
	mu    sync.Mutex
	paths = map[uintptr]string{}
)

func key(m []byte) uintptr {
	if len(m) == 0 {
		return 0
	}
	return uintptr(unsafe.Pointer(&m[0]))
}

func MapRegion(f *os.File, length int, prot, flags int, offset int64) (MMap, error) {
	m, err := real.MapRegion(f, length, prot, flags, offset)
	if err != nil {
		return nil, err
	}
	mu.Lock()
	paths[key(m)] = f.Name()
	mu.Unlock()
	if h := OnMap; h != nil {
		h(f.Name(), m, prot&RDWR != 0)
	}
	return MMap(m), nil
}

func Map(f *os.File, prot, flags int) (MMap, error) { return MapRegion(f, -1, prot, flags, 0) }

func (m MMap) path() string {
	mu.Lock()
	defer mu.Unlock()
	return paths[key(m)]
}

func (m MMap) Flush() error {
	if h := OnFlush; h != nil {
		if err := h(m.path(), m); err != nil {
			return err
		}
	}
	return real.MMap(m).Flush()
}

func (m MMap) Lock() error   { return real.MMap(m).Lock() }
func (m MMap) Unlock() error { return real.MMap(m).Unlock() }

func (m *MMap) Unmap() error {
	p := m.path()
	if h := OnUnmap; h != nil {
		h(p, *m)
	}
	mu.Lock()
	delete(paths, key(*m))
	mu.Unlock()
	r := real.MMap(*m)
	err := r.Unmap()
	*m = MMap(r)
	return err
}
