package oxsim

import (
	"bufio"
	"encoding/json"
	"fmt"
	"os"
	"strconv"
	"testing"
)

// propRunner executes one simulated run of a property.
type propRunner func(r *Run)

var registry = map[string]propRunner{}

type replayFile struct {
	Property string            `json:"property"`
	Seed     uint64            `json:"seed"`
	Tier     string            `json:"tier"`
	Keep     []int             `json:"keep"` // nil = all plan items
	Opts     map[string]string `json:"opts,omitempty"`
	// informational
	Violation *Violation     `json:"violation,omitempty"`
	Knobs     map[string]any `json:"knobs,omitempty"`
	LogTail   []string       `json:"log_tail,omitempty"`
	Sample    any            `json:"sample,omitempty"`
	LogHash   string         `json:"log_hash,omitempty"`
}

func envInt(k string, d int64) int64 {
	if v := os.Getenv(k); v != "" {
		if n, err := strconv.ParseInt(v, 10, 64); err == nil {
			return n
		}
	}
	return d
}

// TestWorker is the entry point used by the driver (/verif/check): it runs a range of
// seeds of one property sequentially, one bubble per seed, and appends one JSON line
// per run to OXSIM_OUT.
func TestWorker(t *testing.T) {
	prop := os.Getenv("OXSIM_PROP")
	if prop == "" {
		t.Skip("OXSIM_PROP not set")
	}
	tier := os.Getenv("OXSIM_TIER")
	if tier == "" {
		tier = "quick"
	}
	opts := map[string]string{}
	if o := os.Getenv("OXSIM_OPTS"); o != "" {
		_ = json.Unmarshal([]byte(o), &opts)
	}
	out := os.Stdout
	if p := os.Getenv("OXSIM_OUT"); p != "" {
		f, err := os.OpenFile(p, os.O_CREATE|os.O_WRONLY|os.O_APPEND, 0o644)
		if err != nil {
			t.Fatal(err)
		}
		defer f.Close()
		out = f
	}
	w := bufio.NewWriter(out)
	defer w.Flush()
	emit := func(v any) {
		b, _ := json.Marshal(v)
		w.Write(b)
		w.WriteByte('\n')
		w.Flush()
	}

	type job struct {
		seed uint64
		keep map[int]bool
		prop string
		tier string
		opts map[string]string
	}
	var jobs []job
	if rp := os.Getenv("OXSIM_REPLAY"); rp != "" {
		b, err := os.ReadFile(rp)
		if err != nil {
			t.Fatal(err)
		}
		var rf replayFile
		if err := json.Unmarshal(b, &rf); err != nil {
			t.Fatal(err)
		}
		var keep map[int]bool
		if rf.Keep != nil {
			keep = map[int]bool{}
			for _, k := range rf.Keep {
				keep[k] = true
			}
		}
		if rf.Tier == "" {
			rf.Tier = tier
		}
		o := rf.Opts
		if o == nil {
			o = opts
		}
		jobs = append(jobs, job{rf.Seed, keep, rf.Property, rf.Tier, o})
	} else {
		from := uint64(envInt("OXSIM_SEED_FROM", 1))
		n := envInt("OXSIM_SEED_COUNT", 1)
		for i := int64(0); i < n; i++ {
			jobs = append(jobs, job{from + uint64(i), nil, prop, tier, opts})
		}
	}
	for _, j := range jobs {
		fn, ok := registry[j.prop]
		if !ok {
			t.Fatalf("unknown property %q", j.prop)
		}
		emit(map[string]any{"start": j.seed, "prop": j.prop})
		res := ExecBubble(t, j.prop, j.seed, j.tier, j.keep, j.opts, fn)
		if j.keep != nil {
			for k := range j.keep {
				res.Keep = append(res.Keep, k)
			}
		}
		if ps, ok := res.Knobs["plan_size"]; ok {
			res.PlanSize, _ = strconv.Atoi(fmt.Sprint(ps))
		}
		emit(res)
		if !res.OK {
			// a failed run may leave process-global state of the system under test (pools,
			// caches) inconsistent: never let it influence later seeds.  The driver restarts
			// a fresh worker for the remaining seeds.
			return
		}
	}
}

func init() {
	registry["C09"] = runC09
}
