// mkoverlay generates the build-time seams described in DESIGN.md §3.2:
// a go -overlay JSON that (S1) patches the go1.26.8 runtime so that map iteration,
// select order and runtime-provided randomness are a function of a settable seed
// for goroutines inside a synctest bubble, (S2) re-points the "sync" import of oxia's
// own packages to a bubble-friendly implementation with yield points, and (S2b,S4,S6)
// re-points a few other imports / adds overlay-only files.  Nothing is written to
// /repo or GOROOT.  Every rewrite asserts its hit count; a mismatch is a build
// failure (exit 2), never a verdict.
package main

import (
	"encoding/json"
	"flag"
	"fmt"
	"go/parser"
	"go/token"
	"os"
	"path/filepath"
	"regexp"
	"sort"
	"strings"
)

type overlay struct {
	Replace map[string]string
}

var (
	repo   = flag.String("repo", "/repo", "oxia tree")
	goroot = flag.String("goroot", "/opt/veriftools/go1.26.8", "GOROOT of the sim toolchain")
	shim   = flag.String("shim", "/verif/shim", "shim sources")
	out    = flag.String("out", "/verif/.build/overlay", "output dir")
)

func die(f string, a ...any) {
	fmt.Fprintf(os.Stderr, "mkoverlay: "+f+"\n", a...)
	os.Exit(2)
}

type rule struct {
	re   string
	repl string
	min  int // minimum hits
	max  int // maximum hits (0 = same as min)
}

func applyRules(path string, rules []rule) string {
	b, err := os.ReadFile(path)
	if err != nil {
		die("read %s: %v", path, err)
	}
	s := string(b)
	for _, r := range rules {
		re := regexp.MustCompile(r.re)
		n := len(re.FindAllStringIndex(s, -1))
		mx := r.max
		if mx == 0 {
			mx = r.min
		}
		if n < r.min || n > mx {
			die("%s: rule %q hit %d times, expected %d..%d", path, r.re, n, r.min, mx)
		}
		s = re.ReplaceAllString(s, r.repl)
	}
	return s
}

var ov = overlay{Replace: map[string]string{}}

func emit(target, content string) {
	rel := strings.TrimPrefix(target, "/")
	dst := filepath.Join(*out, rel)
	if err := os.MkdirAll(filepath.Dir(dst), 0o755); err != nil {
		die("%v", err)
	}
	old, err := os.ReadFile(dst)
	if err != nil || string(old) != content {
		if err := os.WriteFile(dst, []byte(content), 0o644); err != nil {
			die("%v", err)
		}
	}
	ov.Replace[target] = dst
}

func patchRuntime() {
	rt := filepath.Join(*goroot, "src/runtime")
	mp := filepath.Join(*goroot, "src/internal/runtime/maps")

	emit(filepath.Join(rt, "runtime2.go"), applyRules(filepath.Join(rt, "runtime2.go"), []rule{
		{`(?m)^\tbubble  \*synctestBubble\n`, "\tbubble  *synctestBubble\n\tsimctr  uint64\n\tsimtag  uint64\n\tsimpath uint64\n\tsimkids uint64\n\tsimlast int64\n", 1, 0},
	}))
	emit(filepath.Join(rt, "proc.go"), applyRules(filepath.Join(rt, "proc.go"), []rule{
		{`(?m)^\tnewg\.startpc = fn\.fn\n`, "\tnewg.startpc = fn.fn\n\tnewg.simctr = 0\n\tnewg.simtag = 0\n\tnewg.simkids = 0\n\tnewg.simpath = 0\n\tnewg.simlast = -1\n", 1, 0},
		{`(?m)^\t\tnewg\.bubble = callergp\.bubble\n`, "\t\tnewg.bubble = callergp.bubble\n\t\tnewg.simtag = callergp.simtag\n\t\tcallergp.simkids++\n\t\tnewg.simpath = simmix(callergp.simpath, callergp.simkids)\n", 1, 0},
		// Gosched moves the goroutine to the *global* run queue, which the scheduler looks at every
		// 61st scheduling tick of the P -- a counter that background goroutines (scavenger, sweeper)
		// advance at real-time-dependent moments.  In a simulation the goroutine goes to the tail of
		// the local queue instead.
		{`(?m)^\t\} else \{\n\t\tlock\(&sched\.lock\)\n\t\tglobrunqput\(gp\)\n\t\tunlock\(&sched\.lock\)\n`, "\t} else if simSeed != 0 && gp.bubble != nil {\n\t\trunqput(pp, gp, false)\n\t} else {\n\t\tlock(&sched.lock)\n\t\tglobrunqput(gp)\n\t\tunlock(&sched.lock)\n", 1, 0},
		// sysmon takes the P away from a goroutine that sits in a system call (file I/O) for more than
		// 20 us of real time and hands it to another thread, which reorders everything that follows.
		// In a simulation the P waits for the system call.
		{`(?m)^\t\tthread\.takeP\(\)\n\t\tthread\.resume\(\)\n\t\tn\+\+\n`, "\t\tif simSeed != 0 {\n\t\t\tthread.resume()\n\t\t\tgoto done\n\t\t}\n\t\tthread.takeP()\n\t\tthread.resume()\n\t\tn++\n", 1, 0},
		// sysmon asks a goroutine that has been on the P for 10 ms of *real* time to yield at its next
		// function call: under load that moves scheduling points around.  Not while a simulation runs.
		{`(?m)^\t\t\} else if pd\.schedwhen\+forcePreemptNS <= now \{\n\t\t\tpreemptone\(pp\)\n`, "\t\t} else if pd.schedwhen+forcePreemptNS <= now {\n\t\t\tif simSeed == 0 {\n\t\t\t\tpreemptone(pp)\n\t\t\t}\n", 1, 0},
	}))
	emit(filepath.Join(rt, "rand.go"), applyRules(filepath.Join(rt, "rand.go"), []rule{
		{`(?m)^func maps_rand\(\) uint64 \{\n`, "func maps_rand() uint64 {\n\tif simSeed != 0 {\n\t\tif gp := getg(); gp.bubble != nil {\n\t\t\treturn simmix(simSeed, 0x6d617073)\n\t\t}\n\t}\n", 1, 0},
		{`(?m)^func rand\(\) uint64 \{\n`, "func rand() uint64 {\n\tif simSeed != 0 {\n\t\tif gp := getg(); gp.bubble != nil {\n\t\t\treturn simnext(gp)\n\t\t}\n\t}\n", 1, 0},
	}))
	// (maps_rand is patched in rand.go below together with rand)
	// same-instant fake timers are ordered by a per-timer random value: draw it from the seeded stream
	emit(filepath.Join(rt, "time.go"), applyRules(filepath.Join(rt, "time.go"), []rule{
		{`t\.rand = cheaprand\(\)`, "t.rand = simcheaprand32()", 1, 0},
	}))
	emit(filepath.Join(rt, "select.go"), applyRules(filepath.Join(rt, "select.go"), []rule{
		{`j := cheaprandn\(uint32\(norder \+ 1\)\)`, "j := simcheaprandn(uint32(norder + 1))", 1, 0},
	}))
	emit(filepath.Join(rt, "alg.go"), applyRules(filepath.Join(rt, "alg.go"), []rule{
		{`hashkey\[i\] = uintptr\(bootstrapRand\(\)\)`, "hashkey[i] = uintptr(0x9e3779b97f4a7c15 * uint64(i+1))", 1, 0},
		{`key\[i\] = bootstrapRand\(\)`, "key[i] = 0x9e3779b97f4a7c15 * uint64(i+1)", 1, 0},
	}))
	b, err := os.ReadFile(filepath.Join(*shim, "runtime/zsim.go.txt"))
	if err != nil {
		die("%v", err)
	}
	emit(filepath.Join(rt, "zsim.go"), string(b))

	// map hash seed fixed: layout is a function of insertion history only
	ents, err := os.ReadDir(mp)
	if err != nil {
		die("%v", err)
	}
	total := 0
	for _, e := range ents {
		n := e.Name()
		if !strings.HasSuffix(n, ".go") || strings.HasSuffix(n, "_test.go") {
			continue
		}
		p := filepath.Join(mp, n)
		b, _ := os.ReadFile(p)
		c := strings.Count(string(b), ", m.seed)")
		if c == 0 {
			continue
		}
		total += c
		emit(p, strings.ReplaceAll(string(b), ", m.seed)", ", 0)"))
	}
	if total < 20 {
		die("maps: only %d ', m.seed)' sites", total)
	}
}

// repointImports rewrites import specs in every non-test .go file below the given
// directories of the repo.  m maps import path -> (new path, forced local name).
type repoint struct{ path, name string }

func repointImports(dirs []string, only func(rel string) bool, m map[string]repoint) map[string]int {
	hits := map[string]int{}
	for _, d := range dirs {
		root := filepath.Join(*repo, d)
		filepath.Walk(root, func(p string, info os.FileInfo, err error) error {
			if err != nil || info.IsDir() || !strings.HasSuffix(p, ".go") || strings.HasSuffix(p, "_test.go") {
				return nil
			}
			rel, _ := filepath.Rel(*repo, p)
			if only != nil && !only(rel) {
				return nil
			}
			src := pending(p)
			fset := token.NewFileSet()
			f, err := parser.ParseFile(fset, p, src, parser.ImportsOnly)
			if err != nil {
				die("parse %s: %v", p, err)
			}
			type edit struct {
				s, e int
				txt  string
			}
			var edits []edit
			for _, is := range f.Imports {
				ip := strings.Trim(is.Path.Value, `"`)
				rp, ok := m[ip]
				if !ok {
					continue
				}
				name := rp.name
				if is.Name != nil {
					name = is.Name.Name
				}
				s := fset.Position(is.Pos()).Offset
				e := fset.Position(is.End()).Offset
				edits = append(edits, edit{s, e, fmt.Sprintf("%s %q", name, rp.path)})
				hits[ip]++
			}
			if len(edits) == 0 {
				return nil
			}
			sort.Slice(edits, func(i, j int) bool { return edits[i].s > edits[j].s })
			for _, e := range edits {
				src = src[:e.s] + e.txt + src[e.e:]
			}
			emit(p, src)
			return nil
		})
	}
	return hits
}

// pending returns the current overlay content for a repo file if one was emitted
// already, else the file on disk.
func pending(p string) string {
	if dst, ok := ov.Replace[p]; ok {
		b, _ := os.ReadFile(dst)
		return string(b)
	}
	b, err := os.ReadFile(p)
	if err != nil {
		die("%v", err)
	}
	return string(b)
}

func addShimPackage(shimDir, targetDir string) {
	ents, err := os.ReadDir(filepath.Join(*shim, shimDir))
	if err != nil {
		die("%v", err)
	}
	for _, e := range ents {
		if !strings.HasSuffix(e.Name(), ".go") {
			continue
		}
		b, _ := os.ReadFile(filepath.Join(*shim, shimDir, e.Name()))
		emit(filepath.Join(*repo, targetDir, e.Name()), string(b))
	}
}

func main() {
	flag.Parse()
	if err := os.MkdirAll(*out, 0o755); err != nil {
		die("%v", err)
	}
	patchRuntime()

	const mod = "github.com/oxia-db/oxia"
	// S2: sync -> simsync in oxia's own packages
	addShimPackage("simsync", "common/simsync")
	h := repointImports([]string{"server", "coordinator", "common", "oxia"},
		func(rel string) bool { return !strings.HasPrefix(rel, "common/simsync") },
		map[string]repoint{"sync": {mod + "/common/simsync", "sync"}})
	if h["sync"] < 25 {
		die("sync re-pointed in only %d files", h["sync"])
	}

	// S4: WAL mmap + os shims
	addShimPackage("simmmap", "common/simmmap")
	h = repointImports([]string{"server/wal"}, nil, map[string]repoint{
		"github.com/edsrzf/mmap-go": {mod + "/common/simmmap", "mmap"},
	})
	if h["github.com/edsrzf/mmap-go"] < 2 {
		die("mmap re-pointed in only %d files", h["github.com/edsrzf/mmap-go"])
	}

	// S4: Pebble FS seam: vfs.Default -> kv.SimFS()
	kvp := filepath.Join(*repo, "server/kv/kv_pebble.go")
	src := pending(kvp)
	re := regexp.MustCompile(`\bvfs\.Default\b`)
	if n := len(re.FindAllStringIndex(src, -1)); n < 1 {
		die("kv_pebble.go: vfs.Default not found")
	}
	src = re.ReplaceAllString(src, "simPebbleFS(factory.dataDir)")
	// buggify seam: the engine may flush (and the node may crash) right after any batch commit
	re2 := regexp.MustCompile(`(?m)^\terr := b\.b\.Commit\(pebble\.NoSync\)\n`)
	if n := len(re2.FindAllStringIndex(src, -1)); n != 1 {
		die("kv_pebble.go: batch commit site found %d times, expected 1", n)
	}
	src = re2.ReplaceAllString(src, "\tsimBeforeCommit(b.p)\n\terr := b.b.Commit(pebble.NoSync)\n\tsimAfterCommit(b.p)\n")
	// tuning-knob seam: the engine's memtable size (32 MiB in production) is a per-run knob
	re3 := regexp.MustCompile(`MemTableSize: 32 \* 1024 \* 1024,`)
	if n := len(re3.FindAllStringIndex(src, -1)); n != 1 {
		die("kv_pebble.go: MemTableSize site found %d times, expected 1", n)
	}
	src = re3.ReplaceAllString(src, "MemTableSize: simMemTableSize(),")
	// snapshot sender/loader go through the engine's file system
	osRe := regexp.MustCompile(`\bos\.(ReadDir|Stat|Open|OpenFile|RemoveAll|MkdirAll)\(`)
	fileRe := regexp.MustCompile(`\*os\.File\b`)
	simName := func(m string) string { return "sim" + m[3:] }
	src = osRe.ReplaceAllStringFunc(src, simName)
	src = fileRe.ReplaceAllString(src, "simFile")
	emit(kvp, src)
	ksp := filepath.Join(*repo, "server/kv/kv_pebble_snapshot.go")
	ssrc := pending(ksp)
	if n := len(osRe.FindAllStringIndex(ssrc, -1)); n < 3 {
		die("kv_pebble_snapshot.go: only %d os calls found", n)
	}
	ssrc = osRe.ReplaceAllStringFunc(ssrc, simName)
	ssrc = fileRe.ReplaceAllString(ssrc, "simFile")
	ssrc = strings.Replace(ssrc, "\t\"os\"\n", "\t_ \"os\"\n", 1)
	emit(ksp, ssrc)
	// buggify seam: storing a term may fail (engine closed under it, write refused): the caller sees an error
	dbp := filepath.Join(*repo, "server/kv/db.go")
	dsrc := pending(dbp)
	re5 := regexp.MustCompile(`(?m)^func \(d \*db\) UpdateTerm\(newTerm int64, options TermOptions\) error \{\n`)
	if n := len(re5.FindAllStringIndex(dsrc, -1)); n != 1 {
		die("db.go: UpdateTerm found %d times, expected 1", n)
	}
	dsrc = re5.ReplaceAllString(dsrc, "func (d *db) UpdateTerm(newTerm int64, options TermOptions) error {\n\tif err := simTermStoreFault(d.shardId, newTerm); err != nil {\n\t\treturn err\n\t}\n")
	emit(dbp, dsrc)
	// clock seam: the timestamp a leader stamps a new entry with
	lcp := filepath.Join(*repo, "server/leader_controller.go")
	lsrc := pending(lcp)
	re4 := regexp.MustCompile(`(?m)^\ttimestamp := uint64\(time\.Now\(\)\.UnixMilli\(\)\)\n`)
	if n := len(re4.FindAllStringIndex(lsrc, -1)); n != 1 {
		die("leader_controller.go: entry timestamp site found %d times, expected 1", n)
	}
	lsrc = re4.ReplaceAllString(lsrc, "\ttimestamp := simEntryTimestamp(lc.namespace, lc.shardId, lc.term, uint64(time.Now().UnixMilli()))\n")
	emit(lcp, lsrc)
	addShimPackage("kvx", "server/kv")
	addShimPackage("walx", "server/wal")
	addShimPackage("serverx", "server")

	// S3 (W4): swappable client pool
	cp := filepath.Join(*repo, "common/rpc/client_pool.go")
	src = pending(cp)
	re = regexp.MustCompile(`(?m)^func NewClientPool\(`)
	if n := len(re.FindAllStringIndex(src, -1)); n != 1 {
		die("client_pool.go: NewClientPool not found")
	}
	emit(cp, re.ReplaceAllString(src, "func newClientPoolReal("))
	addShimPackage("rpcx", "common/rpc")
	addShimPackage("oxiax", "oxia")

	js, _ := json.MarshalIndent(ov, "", " ")
	if err := os.WriteFile(filepath.Join(*out, "overlay.json"), js, 0o644); err != nil {
		die("%v", err)
	}
	fmt.Printf("mkoverlay: %d files\n", len(ov.Replace))
}
