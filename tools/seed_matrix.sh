#!/bin/bash
# Applies every seeded defect in turn, runs the check of its property (sizes below), reverts, and
# records what was reported in seeded/MATRIX.txt and in each seeded/<id>/meta.json (detected_by).
cd /verif
out=seeded/MATRIX.txt
[ $# -eq 0 ] && : > $out
declare -A ARGS=( [C01]="--seeds 3000 --budget 300" [C02]="--seeds 3000 --budget 300" [C03]="--seeds 3000 --budget 300" [C04]="--seeds 3000 --budget 300"
 [C05]="--seeds 3000 --budget 300" [C08]="--seeds 6000 --budget 300" [C12]="--seeds 6000 --budget 300" [C13]="--seeds 3000 --budget 300" [C03b]="--seeds 3000 --budget 400" )
for id in ${@:-$(ls seeded | grep '^C')}; do
  git -C /repo diff --quiet || { echo "repo dirty"; exit 2; }
  git -C /repo apply /verif/seeded/$id/patch.diff || { echo "$id: patch does not apply" | tee -a $out; continue; }
  prop=${id:0:3}
  log=$(./check $prop quick ${ARGS[$id]:-} 2>&1)
  rc=$?
  git -C /repo checkout -- .
  first=$(echo "$log" | grep "class=" | head -3 | cut -c1-260)
  runs=$(echo "$log" | grep "runs in" | tail -1)
  echo "== $id rc=$rc :: $runs" | tee -a $out
  echo "$first" | tee -a $out
  python3 - "$id" "$rc" "$first" "${ARGS[$id]:-}" <<'PY'
import json,sys,re
i,rc,first,args=sys.argv[1:5]
p=f'/verif/seeded/{i}/meta.json'
m=json.load(open(p))
classes=re.findall(r'class=(\S+)',first)
m['detected_by']=[{"check":f"./check {i[:3]} quick {args}".strip(),"exit":int(rc),"violation_classes":classes}] if rc=='1' else []
json.dump(m,open(p,'w'),indent=1)
PY
done
