#!/usr/bin/env python3
"""Regenerates §11 of DESIGN.md (seeded defects table) from seeded/*/meta.json."""
import json, os, re, glob
V = os.path.dirname(os.path.dirname(os.path.abspath(__file__)))
MISSES = """
### 11.1 Changes that were missed at first, and what was added for them

| seed | why the check of the time stayed quiet | what was added |
|---|---|---|
| C01b | its only symptom matched the signature of a known finding | `never_known` veto expressions in `known_findings.json`; signatures now quote evidence from the run |
| C02c, C05c, C01c, C07c | the property's own oracle cannot see the change | the matrix tries the check whose oracle can (C12, C18, C03); C18 got the config-change histories with coordinator restarts that C05c needs |
| C02d | reads were only sent to the leader the client knew | reads through past leaders and directed probes while an election is running (`probeDuringElection`, `ReadVia`) |
| C08c | a stream send always returned before anything else could happen | stream sends that return late (`LateSendPct`) |
| C11c | reads never looked into an open batch | in-batch range and lookup reads, long first path elements |
| C15c | index ranges always had a lower bound | open-start ranges |
| C17c | no write ever landed inside a trimming round | `kv.SimBeforeCommit` holds the trimmer, a write commits meanwhile |
| C18c | the coordinator never restarted on an empty status | "remove all namespaces, restart, add one" step; stored-term monotonicity |
| C14d | the known-finding text did not require evidence of ownership | `gainedAt`: the finding only matches when the run shows the record was written under the session after the listing |
| C17d | subscriptions were only opened while nothing else happened | subscriptions opened during a burst of writes, late-returning stream sends |
| C05d | no simulated world made storing a term fail | `kv.SimTermStoreFault` in 15 % of the C04/C05 runs |
| C03d | a leader's view carried its quorum commit offset, not what its DB had applied | the DB's stored offset counts for leader controllers; `applied-without-quorum` |
| C19b | — | no longer a defect after fix 63fbb1f |
| C18d | needs a namespace placed in part; not reached (see its row) | racks that cross zones in 30 % of the C18/C19 runs — reaches whole-namespace refusals and a selector panic (§12), not the partial case |
"""
rows = []
for d in sorted(glob.glob(os.path.join(V, "seeded", "C*"))):
    m = json.load(open(os.path.join(d, "meta.json")))
    name = os.path.basename(d)
    summ = re.sub(r"\s+", " ", m.get("summary") or "")
    first = summ.split(". ")[0][:230]
    det = m.get("detected_by") or []
    if det:
        cl = ", ".join(sorted(set(det[0].get("violation_classes") or []))) or "violation"
        res = "%s → %s" % (det[0]["check"].replace("./check ", ""), cl)
    else:
        res = m.get("not_detected_note", "not detected")
    rows.append("| %s | %s | %s | %s |" % (name, ", ".join(m.get("files_changed") or []), first.replace("|", "/"), res.replace("|", "/")))
out = """## 11. Seeded defects and what the checks report for them

Each row is a change made by a fresh sub-agent that saw only the property text and its own
scratch worktree: it breaks the property under something specific, compiles, and passes the
existing test suite (confirmed here: the agent's demonstration test passes on the clean tree
and fails with the patch; the touched packages' tests and the whole suite pass with the
patch). Patch, demonstration and notes are under `seeded/<id>/`; none is ever committed to
`/repo`. `tools/seed_matrix.sh` applies each patch, runs the check of its property (quick
tier, with a larger seed count for the properties whose defects need several elections) and
reverts; the last column is what that run printed. Where the check of the property itself stays
quiet the script tries the check named for that change in its `ALT` table — a change seeded
against one property can be visible only through the oracle of another (a delete-range defect filed
under C02 is a C12 state mismatch; a torn read of the coordinator's status record filed under C05
needs the config-change histories of C18; a leader that applies an uncommitted tail, filed under C07,
is caught by the C03 commit ledger). """ + str(len(rows)) + """ changes in seven waves; a change that an accepted repair has
since made harmless says so in the last column.

| seed | file changed | change (first sentence of the author's summary) | reported by |
|---|---|---|---|
""" + "\n".join(rows) + "\n" + MISSES
s = open(os.path.join(V, "DESIGN.md")).read()
if "@@SECTION11@@" in s:
    s = s.replace("@@SECTION11@@", out.rstrip())
else:
    a = s.index("## 11. Seeded defects")
    b = s.index("--------------------------------------------------------------------------------", a)
    s = s[:a] + out.rstrip() + "\n\n" + s[b:]
open(os.path.join(V, "DESIGN.md"), "w").write(s)
print("section 11:", len(rows), "rows")
