#!/bin/bash
# regenerates every claimed check's evidence file with the plain quick command (what a fresh restore runs)
cd /verif
for p in $(python3 -c "import json;print(' '.join(c['property_id'] for c in json.load(open('MANIFEST.json'))['checks']))"); do
  VERIF_SEED=1 VERIF_TIER=quick ./check $p quick 2>&1 | grep "VIOLATION\|runs in\|ERROR\|ZERO"
done
