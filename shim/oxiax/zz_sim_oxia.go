// Overlay-only file (oxsim, DESIGN.md §3.2 S3): adds declarations to the client package,
// changes none.  The shard manager lives in an internal package; the simulator reaches it
// through this re-export.
package oxia

import (
	"time"

	"github.com/oxia-db/oxia/common/rpc"
	"github.com/oxia-db/oxia/oxia/internal"
)

// SimShardManager is the client library's view of one namespace's shard map.
type SimShardManager interface {
	Close() error
	Get(key string) int64
	GetAll() []int64
	Leader(shardId int64) string
}

// SimNewShardManager starts the real client-side shard manager against serviceAddress.
func SimNewShardManager(pool rpc.ClientPool, serviceAddress, namespace string, requestTimeout time.Duration) (SimShardManager, error) {
	return internal.NewShardManager(internal.NewShardStrategy(), pool, serviceAddress, namespace, requestTimeout)
}
