package oxsim

// C11: the hierarchical key order is a strict total order and the storage engine honours it.

import (
	"bytes"
	"fmt"
	"os"
	"sort"
	"strings"

	"github.com/cockroachdb/pebble"

	"github.com/oxia-db/oxia/common/compare"
	"github.com/oxia-db/oxia/proto"
	"github.com/oxia-db/oxia/server/kv"
)

var c11Alphabet = []string{"/", "/", "/", "-", ".", "!", "0", "1", "a", "b", "z", "~", "é", "A", "_"}

func c11Key(g *Rng) string {
	switch g.Intn(10) {
	case 0: // long shared prefix
		return "shared/prefix/that/is/long/" + fmt.Sprintf("%04d", g.Intn(3000))
	case 1:
		return fmt.Sprintf("flat-%05d", g.Intn(5000))
	case 2:
		return fmt.Sprintf("/ns/%d/%03d", g.Intn(4), g.Intn(400))
	case 3: // first path element of 7..12 bytes (around the 8-byte key abbreviation the engine indexes batches by)
		first := []string{"tenant-", "tenant-a", "tenant-al", "zookeeper-1", "abcdefgh", "abcdefg", "abcdefghi", "users-eu-west"}[g.Intn(8)]
		return first + []string{"", "/", "/cfg", "/k" + fmt.Sprint(g.Intn(30)), "/a/b"}[g.Intn(5)]
	}
	n := g.Range(1, 9)
	var sb strings.Builder
	for i := 0; i < n; i++ {
		sb.WriteString(c11Alphabet[g.Intn(len(c11Alphabet))])
	}
	return sb.String()
}

func sign(x int) int {
	switch {
	case x < 0:
		return -1
	case x > 0:
		return 1
	}
	return 0
}

func runC11(r *Run) {
	g := NewRng(r.Seed, "c11")
	dir := newScratchDir("c11")
	defer os.RemoveAll(dir)
	factory, err := kv.NewPebbleKVFactory(&kv.FactoryOptions{DataDir: dir, CacheSizeMB: 1})
	if err != nil {
		r.Fail("open-error", "%v", err)
		return
	}
	defer factory.Close()
	k, err := factory.NewKV("ns", 1)
	if err != nil {
		r.Fail("open-error", "%v", err)
		return
	}
	defer func() {
		if k != nil {
			_ = k.Close()
		}
	}()
	model := map[string][]byte{}
	var prog []string
	r.Sample = &prog
	nsteps := g.Range(3, 14)
	valMax := []int{16, 200, 1500, 6000}[g.Intn(4)] // large values make data sets span many 64 KiB blocks
	r.Knobs["plan_size"] = nsteps
	r.Knobs["value_max"] = valMax

	sortedKeys := func() []string {
		ks := make([]string, 0, len(model))
		for key := range model {
			ks = append(ks, key)
		}
		sort.Slice(ks, func(i, j int) bool { return refCompare(ks[i], ks[j]) < 0 })
		return ks
	}
	verify := func(where string, full bool) {
		ks := sortedKeys()
		// every stored key must be found by an exact get
		miss := 0
		firstMiss := ""
		for i, key := range ks {
			if !full && i%7 != 0 {
				continue
			}
			_, v, cl, err := k.Get(key, kv.ComparisonEqual)
			if err != nil {
				miss++
				if firstMiss == "" {
					firstMiss = key
				}
				continue
			}
			if !bytes.Equal(v, model[key]) {
				_ = cl.Close()
				r.Fail("get-wrong-value", "%s: get(%q) returned a different value", where, key)
				return
			}
			_ = cl.Close()
		}
		if miss > 0 {
			r.Fail("stored-key-not-found", "%s: %d of %d stored keys are not found by an exact get (first: %q)", where, miss, len(ks), firstMiss)
			return
		}
		// full scan equals the sorted reference
		it, err := k.RangeScan("", "")
		if err != nil {
			r.Fail("scan-error", "%v", err)
			return
		}
		i := 0
		for ; it.Valid(); it.Next() {
			if i >= len(ks) || it.Key() != ks[i] {
				want := "<end>"
				if i < len(ks) {
					want = ks[i]
				}
				r.Fail("scan-mismatch", "%s: full scan position %d is %q, reference has %q", where, i, it.Key(), want)
				_ = it.Close()
				return
			}
			i++
		}
		_ = it.Close()
		if i != len(ks) {
			r.Fail("scan-mismatch", "%s: full scan returned %d keys, reference has %d", where, i, len(ks))
			return
		}
		// bounded scans and comparison lookups
		probes := 30
		if full {
			probes = 150
		}
		for p := 0; p < probes && !r.Failed(); p++ {
			var key string
			if len(ks) > 0 && g.Chance(50) {
				key = ks[g.Intn(len(ks))]
			} else {
				key = c11Key(g)
			}
			for ct := kv.ComparisonEqual; ct <= kv.ComparisonHigher; ct++ {
				want := refLookup(ks, key, protoCT(ct))
				gk, _, cl, err := k.Get(key, ct)
				got := ""
				if err == nil {
					got = gk
					_ = cl.Close()
				} else if err != kv.ErrKeyNotFound {
					r.Fail("get-error", "%s: get(%q,%d): %v", where, key, ct, err)
					return
				}
				if got != want {
					r.Fail("lookup-mismatch", "%s: get(%q, comparison %d) = %q, reference %q", where, key, ct, got, want)
					return
				}
			}
			a, b := key, c11Key(g)
			if refCompare(a, b) > 0 {
				a, b = b, a
			}
			want := refRange(ks, a, b)
			kit, err := k.KeyRangeScan(a, b)
			if err != nil {
				r.Fail("scan-error", "%v", err)
				return
			}
			var got []string
			for ; kit.Valid(); kit.Next() {
				got = append(got, kit.Key())
			}
			_ = kit.Close()
			if strings.Join(got, "\x00") != strings.Join(want, "\x00") {
				r.Fail("range-mismatch", "%s: list[%q,%q) returned %d keys, reference %d", where, a, b, len(got), len(want))
				return
			}
		}
		r.Count("verifications", 1)
	}

	for step := 0; step < nsteps && !r.Failed(); step++ {
		if !r.KeepItem(step) {
			continue
		}
		sg := NewRng(r.Seed, "c11step", step)
		op := sg.Intn(100)
		switch {
		case op < 55: // batch of puts
			n := sg.Range(1, 400)
			wb := k.NewWriteBatch()
			for i := 0; i < n; i++ {
				key := c11Key(sg)
				val := sg.Bytes(sg.Range(0, valMax))
				if err := wb.Put(key, val); err != nil {
					r.Fail("put-error", "%v", err)
				}
				model[key] = val
			}
			if err := wb.Commit(); err != nil {
				r.Fail("commit-error", "%v", err)
			}
			_ = wb.Close()
			prog = append(prog, fmt.Sprintf("put x%d", n))
		case op < 59: // one batch that is written to and read from before it is committed
			n := sg.Range(2, 60)
			wb := k.NewWriteBatch()
			for i := 0; i < n; i++ {
				key := c11Key(sg)
				val := sg.Bytes(sg.Range(0, 40))
				if err := wb.Put(key, val); err != nil {
					r.Fail("put-error", "%v", err)
				}
				model[key] = val
			}
			ks := sortedKeys() // what the batch must show: the committed keys plus its own puts
			for p := 0; p < 12 && !r.Failed(); p++ {
				a, b := c11Key(sg), c11Key(sg)
				if sg.Chance(50) && len(ks) > 0 {
					a = ks[sg.Intn(len(ks))]
				}
				if refCompare(a, b) > 0 {
					a, b = b, a
				}
				want := refRange(ks, a, b)
				kit, err := wb.KeyRangeScan(a, b)
				if err != nil {
					r.Fail("scan-error", "%v", err)
					break
				}
				var got []string
				for ; kit.Valid(); kit.Next() {
					got = append(got, kit.Key())
				}
				_ = kit.Close()
				if strings.Join(got, "\x00") != strings.Join(want, "\x00") {
					r.Fail("in-batch-range-mismatch", "uncommitted batch of %d puts: list[%q,%q) returned %q, reference %q", n, a, b, got, want)
					break
				}
				wantLower := refLookup(ks, a, proto.KeyComparisonType_LOWER)
				gotLower, err := wb.FindLower(a)
				if err != nil && err != kv.ErrKeyNotFound {
					r.Fail("get-error", "in-batch FindLower(%q): %v", a, err)
					break
				}
				if err == kv.ErrKeyNotFound {
					gotLower = ""
				}
				if gotLower != wantLower {
					r.Fail("in-batch-lookup-mismatch", "uncommitted batch of %d puts: FindLower(%q) = %q, reference %q", n, a, gotLower, wantLower)
					break
				}
			}
			if err := wb.Commit(); err != nil {
				r.Fail("commit-error", "%v", err)
			}
			_ = wb.Close()
			prog = append(prog, fmt.Sprintf("put x%d with in-batch reads", n))
			r.Count("in_batch_read_steps", 1)
		case op < 63: // deletes
			ks := sortedKeys()
			wb := k.NewWriteBatch()
			n := sg.Range(1, 30)
			for i := 0; i < n && len(ks) > 0; i++ {
				key := ks[sg.Intn(len(ks))]
				_ = wb.Delete(key)
				delete(model, key)
			}
			_ = wb.Commit()
			_ = wb.Close()
			prog = append(prog, fmt.Sprintf("delete x%d", n))
		case op < 70: // range delete
			a, b := c11Key(sg), c11Key(sg)
			if refCompare(a, b) > 0 {
				a, b = b, a
			}
			wb := k.NewWriteBatch()
			if err := wb.DeleteRange(a, b); err != nil {
				r.Fail("delete-range-error", "%v", err)
			}
			_ = wb.Commit()
			_ = wb.Close()
			for key := range model {
				if refCompare(key, a) >= 0 && refCompare(key, b) < 0 {
					delete(model, key)
				}
			}
			prog = append(prog, fmt.Sprintf("delete-range[%q,%q)", a, b))
		case op < 85: // flush
			if err := k.Flush(); err != nil {
				r.Fail("flush-error", "%v", err)
			}
			prog = append(prog, "flush")
			r.Count("flushes", 1)
		case op < 92: // manual compaction of everything
			if db := kv.SimPebble(k); db != nil {
				_ = k.Flush()
				if err := db.Compact([]byte(""), []byte("\xff\xff\xff\xff"), false); err != nil {
					// pebble rejects start >= end under the comparer; try the widest keys of the data set
					ks := sortedKeys()
					if len(ks) > 1 {
						err = db.Compact([]byte(ks[0]), []byte(ks[len(ks)-1]), false)
					}
					if err != nil {
						r.Count("compact_skipped", 1)
					}
				}
				r.Count("compactions", 1)
			}
			prog = append(prog, "compact")
		default: // graceful restart
			if err := k.Close(); err != nil {
				r.Fail("close-error", "%v", err)
			}
			k, err = factory.NewKV("ns", 1)
			if err != nil {
				r.Fail("reopen-error", "%v", err)
				k = nil
				return
			}
			prog = append(prog, "restart")
			r.Count("restarts", 1)
		}
		if !r.Failed() {
			verify(fmt.Sprintf("after step %d (%s)", step, prog[len(prog)-1]), false)
		}
	}
	if !r.Failed() {
		_ = k.Flush()
		verify("final (after flush)", true)
	}
	// comparator laws and the engine's separator/successor contract on triples drawn from the
	// keys of the run (plain input generation, reported separately in the evidence)
	ks := sortedKeys()
	cmp := kv.OxiaSlashSpanComparer
	for i := 0; i < 300 && len(ks) > 2 && !r.Failed(); i++ {
		a, b, c := ks[g.Intn(len(ks))], ks[g.Intn(len(ks))], ks[g.Intn(len(ks))]
		if g.Chance(30) {
			a = c11Key(g)
		}
		ab := sign(compare.CompareWithSlash([]byte(a), []byte(b)))
		ba := sign(compare.CompareWithSlash([]byte(b), []byte(a)))
		bc := sign(compare.CompareWithSlash([]byte(b), []byte(c)))
		ac := sign(compare.CompareWithSlash([]byte(a), []byte(c)))
		switch {
		case ab != -ba:
			r.Fail("order-antisymmetry", "compare(%q,%q)=%d but compare(%q,%q)=%d", a, b, ab, b, a, ba)
		case (ab == 0) != (a == b):
			r.Fail("order-equality", "compare(%q,%q)=%d disagrees with key equality", a, b, ab)
		case ab < 0 && bc < 0 && ac >= 0, ab > 0 && bc > 0 && ac <= 0:
			r.Fail("order-transitivity", "%q,%q,%q: compare gives %d,%d,%d", a, b, c, ab, bc, ac)
		case ab != sign(refCompare(a, b)):
			r.Fail("order-reference", "compare(%q,%q)=%d, reference order says %d", a, b, ab, sign(refCompare(a, b)))
		}
		if ab < 0 && !r.Failed() {
			sep := cmp.Separator(nil, []byte(a), []byte(b))
			if cmp.Compare([]byte(a), sep) > 0 || cmp.Compare(sep, []byte(b)) >= 0 {
				r.Fail("engine-separator-contract", "Separator(%q,%q)=%q violates a <= sep < b under the engine's comparer", a, b, sep)
			}
		}
		if !r.Failed() {
			suc := cmp.Successor(nil, []byte(a))
			if cmp.Compare([]byte(a), suc) > 0 {
				r.Fail("engine-successor-contract", "Successor(%q)=%q sorts before its argument under the engine's comparer", a, suc)
			}
		}
		r.Count("comparator_triples", 1)
	}
	r.Sig(strings.Join(prog, ";") + fmt.Sprint(valMax))
	if r.Stat("flushes")+r.Stat("compactions")+r.Stat("restarts") > 0 && len(model) > 50 {
		r.Count("nontrivial", 1)
	}
	if len(model) > 1000 {
		r.Count("large_datasets", 1)
	}
}

func protoCT(ct kv.ComparisonType) protoComparison { return protoComparison(ct) }

var _ = pebble.DefaultComparer

func init() { registry["C11"] = runC11 }
