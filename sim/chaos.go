package oxsim

// The W1 fault-injecting engine shared by C01..C05: a real cluster (coordinator + storage
// nodes) under a seeded plan of client operations and faults, with wire taps and
// quiescent-point monitors.  Each property's runner selects a flavour (fault mix, workload
// size) and the oracles it evaluates.

import (
	"errors"
	"fmt"
	"sort"
	"strings"
	"sync"
	"sync/atomic"
	"time"

	"google.golang.org/grpc/codes"
	"google.golang.org/grpc/status"
	pb "google.golang.org/protobuf/proto"

	"github.com/oxia-db/oxia/coordinator/model"
	"github.com/oxia-db/oxia/proto"
	"github.com/oxia-db/oxia/server/kv"
	"github.com/oxia-db/oxia/server/wal"
)

// ---------------------------------------------------------------- history

type opKind int

const (
	opPut opKind = iota
	opCondPut
	opDelete
	opDeleteRange
	opGet
	opList
)

func (k opKind) String() string {
	return [...]string{"put", "cput", "del", "delrange", "get", "list"}[k]
}

type histOp struct {
	ID      int
	Client  int
	Shard   int64
	Kind    opKind
	Key     string
	End     string // range end
	Tag     string // unique value written
	Expect  *int64
	Invoke  int64 // global stamps
	Return  int64 // 0 = never returned (crashed client / still pending)
	Node    string
	OK      bool   // definite success
	Unknown bool   // outcome unknown (error / timeout)
	Status  proto.Status
	Version int64
	Value   string   // get result tag ("" = not found)
	Keys    []string // list result
	ServedTermStale bool // a higher term was durable at the coordinator before the read returned
	Err     string
}

type chaosOpts struct {
	Prop        string
	Nodes       int
	RF          uint32
	Shards      uint32
	Clients     int
	OpsPerClient int
	Keys        int
	Faults      int  // number of fault events
	Crash, PowerLoss, Partition, CoordCrash, BreakStreams, NetLoss, MetaFail, Swap bool
	Yields      bool
	TriggerFence bool // hold NewTerm requests until the target is in the middle of something
	FencePressure bool // prefer faults that make the coordinator re-elect over a live, busy leader
	ReadsOnly   bool
	Window      time.Duration
	CheckLinearizability bool
	WriteHeavy  bool
	ReadPct     int
	TermStoreErrPct int // chance (percent) that storing a new term fails at a node (the engine returns an error)
	LeaderHunt  int // cut off up to this many freshly installed leaders per shard from their peers (clients still reach them)
}

type chaos struct {
	r    *Run
	w    *World
	cl   *Cluster
	o    chaosOpts
	g    *Rng
	stamp atomic.Int64

	probes  int // directed reads issued so far (probeDuringElection)
	mu      sync.Mutex
	hist    []*histOp
	clients []*SimClient
	plan    []string

	// monitors
	mon *monitors
	spares []string
	swaps  atomic.Int64
}

func (c *chaos) Stamp() int64 { return c.stamp.Add(1) }

func (c *chaos) record(op *histOp) {
	c.mu.Lock()
	op.ID = len(c.hist)
	c.hist = append(c.hist, op)
	c.mu.Unlock()
}

func newChaos(r *Run, o chaosOpts) *chaos {
	g := NewRng(r.Seed, "chaos", o.Prop)
	cfg := defaultNetCfg(g)
	if o.NetLoss {
		cfg.DropPct = g.Range(0, 6)
		cfg.DupPct = 0 // gRPC over TCP never delivers one unary request twice
		cfg.SlowPct = g.Range(0, 10)
		cfg.SlowMax = time.Duration(g.Range(5, 400)) * time.Millisecond
	}
	w := NewWorld(r, cfg)
	if o.Yields {
		w.SitePct = g.Range(10, 60)
		w.YieldPct = g.Range(5, 40)
		w.YieldMax = time.Duration(g.Range(50, 5000)) * time.Microsecond
	}
	wal.DefaultFactoryOptions.SegmentSize = int32([]int{4096, 32768, 1 << 20}[g.Intn(3)])
	var names []string
	for i := 1; i <= o.Nodes; i++ {
		names = append(names, fmt.Sprintf("n%d", i))
	}
	cl := NewCluster(w, names, []model.NamespaceConfig{{Name: "default", InitialShardCount: o.Shards, ReplicationFactor: o.RF}})
	c := &chaos{r: r, w: w, cl: cl, o: o, g: g}
	if o.Swap {
		// one spare node is running but not part of the cluster config until a swap fault
		spare := fmt.Sprintf("n%d", o.Nodes+1)
		cl.NodeNames = append(cl.NodeNames, spare)
		c.spares = []string{spare}
	}
	c.mon = newMonitors(c)
	if o.TermStoreErrPct > 0 {
		tg := NewRng(r.Seed, "term-store-fault")
		pct := o.TermStoreErrPct
		kv.SimTermStoreFault = func(shard int64, term int64) error {
			if !tg.Chance(pct) {
				return nil
			}
			r.Count("fault_term_store_error", 1)
			return errors.New("oxsim: injected engine error while storing the term")
		}
	}
	if o.MetaFail {
		// Store *errors* are not injected: resources.status logs through a nil embedded
		// *slog.Logger in its retry path, so the first failed Store panics the coordinator
		// (noted in DESIGN.md §6; a crash, not a violation of a listed property).  Delays only.
		cl.Meta.FailPct = 0
		cl.Meta.DelayMax = time.Duration(g.Range(0, 50)) * time.Millisecond
	}
	r.Knobs["nodes"] = o.Nodes
	r.Knobs["rf"] = o.RF
	r.Knobs["shards"] = o.Shards
	r.Knobs["clients"] = o.Clients
	r.Knobs["net"] = fmt.Sprintf("%+v", cfg)
	r.Knobs["yield"] = fmt.Sprintf("%d/%d/%v", w.SitePct, w.YieldPct, w.YieldMax)
	return c
}

// shardOfKey: keys are assigned to shards by the harness (the hash routing itself is C18's subject).
func (c *chaos) shardOfKey(k string) int64 {
	return int64(H(0, "route", k) % uint64(c.o.Shards))
}

func errIsDefiniteNoEffect(err error) bool {
	// the request verifiably never reached a leader's log
	st, ok := status.FromError(err)
	if !ok {
		return false
	}
	switch st.Code() {
	case codes.Code(106): // node is not leader
		return true
	}
	return strings.Contains(st.Message(), "no leader known") || strings.Contains(st.Message(), "connection refused")
}

// clientLoop runs one simulated client's operations.
func (c *chaos) clientLoop(ci int, sc *SimClient, start time.Duration) {
	_ = NewRng(c.r.Seed, "client", ci)
	time.Sleep(start)
	for i := 0; i < c.o.OpsPerClient && !c.r.Failed(); i++ {
		if !c.r.KeepItem(1000 + ci*200 + i) {
			continue
		}
		og := NewRng(c.r.Seed, "cop", ci, i)
		key := fmt.Sprintf("k%d", og.Intn(c.o.Keys))
		shard := c.shardOfKey(key)
		op := &histOp{Client: ci, Shard: shard, Key: key}
		k := og.Intn(100)
		readPct := 30
		if c.o.WriteHeavy {
			readPct = 10
		}
		if c.o.ReadPct > 0 {
			readPct = c.o.ReadPct
		}
		switch {
		case k < readPct:
			op.Kind = opGet
		case k < readPct+5:
			op.Kind = opList
		case k < readPct+5+8:
			op.Kind = opDelete
		case k < readPct+5+8+4:
			op.Kind = opDeleteRange
			op.End = key + "~"
		case k < readPct+5+8+4+8:
			op.Kind = opCondPut
		default:
			op.Kind = opPut
		}
		op.Tag = fmt.Sprintf("c%d-%d", ci, i)
		timeout := time.Duration(og.Range(2, 20)) * time.Second
		op.Invoke = c.Stamp()
		c.record(op)
		switch op.Kind {
		case opPut, opCondPut:
			p := &proto.PutRequest{Key: key, Value: []byte(op.Tag)}
			if op.Kind == opCondPut {
				// expected version drawn from what this client last saw for the key, or -1
				ev := int64(-1)
				if og.Chance(60) {
					ev = c.lastSeenVersion(ci, key)
				}
				op.Expect = &ev
				p.ExpectedVersionId = &ev
			}
			resp, node, err := sc.Write(shard, &proto.WriteRequest{Puts: []*proto.PutRequest{p}}, timeout)
			op.Node = node
			c.finishWrite(op, err, func() {
				op.Status = resp.Puts[0].Status
				if op.Status == proto.Status_OK {
					op.Version = resp.Puts[0].Version.VersionId
				}
			})
		case opDelete:
			resp, node, err := sc.Write(shard, &proto.WriteRequest{Deletes: []*proto.DeleteRequest{{Key: key}}}, timeout)
			op.Node = node
			c.finishWrite(op, err, func() { op.Status = resp.Deletes[0].Status })
		case opDeleteRange:
			resp, node, err := sc.Write(shard, &proto.WriteRequest{DeleteRanges: []*proto.DeleteRangeRequest{{StartInclusive: key, EndExclusive: op.End}}}, timeout)
			op.Node = node
			c.finishWrite(op, err, func() { op.Status = resp.DeleteRanges[0].Status })
		case opGet:
			via := ""
			if c.o.CheckLinearizability && og.Chance(12) {
				// a client with an old view of the assignments: any server that has led this shard before
				if past := c.mon.pastLeaders(shard); len(past) > 0 {
					via = past[og.Intn(len(past))] + ":6648"
					c.r.Count("reads_via_a_past_leader", 1)
				}
			}
			grs, node, err := sc.ReadVia(via, shard, timeout, &proto.GetRequest{Key: key, IncludeValue: true})
			op.Node = node
			if err != nil || len(grs) != 1 {
				op.Unknown = true
				if err != nil {
					op.Err = err.Error()
				}
			} else {
				op.OK = true
				op.Status = grs[0].Status
				if grs[0].Status == proto.Status_OK {
					op.Value = string(grs[0].Value)
					op.Version = grs[0].Version.VersionId
				}
			}
			op.Return = c.Stamp()
		case opList:
			ks, node, err := sc.List(shard, timeout, "k", "k~")
			op.Node = node
			if err != nil {
				op.Unknown = true
				op.Err = err.Error()
			} else {
				op.OK = true
				op.Keys = ks
			}
			op.Return = c.Stamp()
		}
		if op.Node != "" && c.mon != nil {
			c.mon.noteClientOp(op)
		}
		c.r.Logf("op c%d#%d %s %s -> ok=%v unknown=%v st=%v node=%s %s", ci, i, op.Kind, key, op.OK, op.Unknown, op.Status, op.Node, short(op.Err))
		if op.Unknown {
			c.r.Count("ops_unknown", 1)
			time.Sleep(time.Duration(og.Range(100, 1500)) * time.Millisecond)
		} else {
			c.r.Count("ops_ok", 1)
		}
		time.Sleep(time.Duration(og.Range(1, 400)) * time.Millisecond)
	}
}

func short(s string) string {
	if len(s) > 90 {
		return s[:90]
	}
	return s
}

func (c *chaos) lastSeenVersion(ci int, key string) int64 {
	c.mu.Lock()
	defer c.mu.Unlock()
	for i := len(c.hist) - 1; i >= 0; i-- {
		h := c.hist[i]
		if h.Client == ci && h.Key == key && h.OK && h.Status == proto.Status_OK && (h.Kind == opPut || h.Kind == opCondPut || h.Kind == opGet) {
			return h.Version
		}
	}
	return -1
}

func (c *chaos) finishWrite(op *histOp, err error, ok func()) {
	if err != nil {
		op.Err = err.Error()
		op.Unknown = true
		if errIsDefiniteNoEffect(err) {
			// verifiably refused before logging: still recorded as unknown for linearizability
			// (sound), but never counted as acknowledged
			c.r.Count("ops_refused", 1)
		}
	} else {
		op.OK = true
		ok()
	}
	op.Return = c.Stamp()
}

// ---------------------------------------------------------------- faults

func (c *chaos) liveNodes() []string {
	var out []string
	for _, n := range c.cl.NodeNames {
		if sn := c.w.Node(n); sn != nil && !sn.EP.Dead() {
			out = append(out, n)
		}
	}
	sort.Strings(out)
	return out
}

func (c *chaos) crashNode(name string, g *Rng) {
	sn := c.w.Node(name)
	if sn == nil || sn.EP.Dead() {
		return
	}
	power := c.o.PowerLoss && g.Chance(60)
	newDir := c.cl.nodeDir(name)
	_, st := sn.Crash(newDir, power, []int{64, 512, 4096}[g.Intn(3)])
	c.r.Count("fault_crash", 1)
	if power {
		c.r.Count("fault_powerloss", 1)
		c.r.Count("fault_powerloss_pages_lost", int64(st.PagesLost+st.Torn))
	}
	c.mon.noteCrash(name)
	delay := time.Duration(g.Range(1, 20000)) * time.Millisecond
	c.w.Net.After(delay, "restart/"+name+fmt.Sprint(sn.EP.Inc), func() {
		if cur := c.w.Node(name); cur == sn {
			c.w.StartNode(name, newDir, nil)
			c.r.Count("fault_restart", 1)
		}
	})
}

func (c *chaos) restartDeadNodes() {
	for _, n := range c.cl.NodeNames {
		sn := c.w.Node(n)
		if sn != nil && sn.EP.Dead() {
			// its image directory was prepared at crash time
			c.w.StartNode(n, c.lastDir(n), nil)
		}
	}
}

func (c *chaos) lastDir(name string) string {
	return fmt.Sprintf("%s/%s-d%d", c.w.Root, name, c.cl.nodeDirSeq[name])
}

// probeDuringElection: a directed read.  While a node is busy becoming leader (BecomeLeader has just been
// delivered; it holds its lock until a quorum has its log and the log is applied) a client with an old
// view of the assignments reads from it.  The answer belongs to the history like any other read.
func (c *chaos) probeDuringElection(node string, shard, term int64) {
	c.mu.Lock()
	n := len(c.clients)
	c.mu.Unlock()
	if n == 0 || c.probes >= 6 {
		return
	}
	c.probes++
	g := NewRng(c.r.Seed, "probe", shard, term)
	ci := g.Intn(n)
	sc := c.clients[ci]
	for j := 0; j < 2; j++ {
		key := fmt.Sprintf("k%d", g.Intn(c.o.Keys))
		if c.shardOfKey(key) != shard {
			continue
		}
		delay := time.Duration(g.Range(0, 3000)) * time.Microsecond
		pid := c.probes*2 + j
		sc.EP.Go(func() {
			time.Sleep(delay)
			op := &histOp{Client: 100 + pid, Shard: shard, Key: key, Kind: opGet, Tag: fmt.Sprintf("probe-%d-%d", shard, term)}
			op.Invoke = c.Stamp()
			c.record(op)
			grs, served, err := sc.ReadVia(node+":6648", shard, 5*time.Second, &proto.GetRequest{Key: key, IncludeValue: true})
			op.Node = served
			if err != nil || len(grs) != 1 {
				op.Unknown = true
				if err != nil {
					op.Err = err.Error()
				}
			} else {
				op.OK = true
				op.Status = grs[0].Status
				if grs[0].Status == proto.Status_OK {
					op.Value = string(grs[0].Value)
					op.Version = grs[0].Version.VersionId
				}
				c.r.Count("probe_reads_answered_during_election", 1)
			}
			op.Return = c.Stamp()
		})
	}
}

// huntLeader: a directed schedule.  A leader that has just been installed is cut off from the other nodes
// and the coordinator (clients keep reaching it) before its first entries have spread, so that logs
// written by one node alone, from the very first offset on, become common.  Called from the monitors.
func (c *chaos) huntLeader(node string, shard, term int64) {
	g := NewRng(c.r.Seed, "hunt", shard, term)
	d := time.Duration(g.Range(1500, 20000)) * time.Millisecond
	c.w.Net.After(time.Duration(g.Range(0, 40))*time.Millisecond, fmt.Sprintf("hunt/%d/%d", shard, term), func() {
		if sn := c.w.Node(node); sn == nil || sn.EP.Dead() {
			return
		}
		others := append([]string{"coord"}, c.cl.NodeNames...)
		for _, o := range others {
			if o != node {
				c.w.Net.Partition(node, o)
				c.w.Net.Partition(o, node)
			}
		}
		c.plan = append(c.plan, fmt.Sprintf("t=%v cut off new leader %s (shard %d term %d) for %v", c.r.Now(), node, shard, term, d))
		c.r.Count("fault_leader_hunt", 1)
		c.w.Net.After(d, fmt.Sprintf("hunt-heal/%d/%d", shard, term), func() {
			for _, o := range others {
				c.w.Net.Heal(node, o)
				c.w.Net.Heal(o, node)
			}
		})
	})
}

func (c *chaos) injectFault(i int) {
	g := NewRng(c.r.Seed, "fault", i)
	live := c.liveNodes()
	var kinds []string
	if c.o.Crash && len(live) > 0 {
		kinds = append(kinds, "crash", "crash")
	}
	if c.o.Partition && len(live) > 0 {
		kinds = append(kinds, "isolate", "oneway")
	}
	if c.o.CoordCrash {
		kinds = append(kinds, "coord")
	}
	if c.o.BreakStreams && len(live) > 1 {
		kinds = append(kinds, "break")
	}
	if c.o.Swap && len(c.spares) > 0 {
		kinds = append(kinds, "swap", "swap")
	}
	if c.o.FencePressure {
		kinds = append(kinds, "mutecoord", "mutecoord", "mutecoord", "mutecoord")
	}
	if len(kinds) == 0 {
		return
	}
	kind := kinds[g.Intn(len(kinds))]
	switch kind {
	case "crash":
		// bias towards the current leader of some shard
		victim := live[g.Intn(len(live))]
		if g.Chance(60) {
			if l := c.mon.currentLeader(int64(g.Intn(int(c.o.Shards)))); l != "" {
				victim = l
			}
		}
		c.plan = append(c.plan, fmt.Sprintf("t=%v crash %s", c.r.Now(), victim))
		c.crashNode(victim, g)
	case "isolate":
		victim := live[g.Intn(len(live))]
		if g.Chance(60) {
			if l := c.mon.currentLeader(int64(g.Intn(int(c.o.Shards)))); l != "" {
				victim = l
			}
		}
		others := append([]string{"coord"}, c.cl.NodeNames...)
		for _, o := range others {
			if o != victim {
				c.w.Net.Partition(victim, o)
				c.w.Net.Partition(o, victim)
			}
		}
		d := time.Duration(g.Range(500, 40000)) * time.Millisecond
		c.plan = append(c.plan, fmt.Sprintf("t=%v isolate %s for %v", c.r.Now(), victim, d))
		c.r.Count("fault_isolate", 1)
		c.w.Net.After(d, fmt.Sprintf("heal/%d", i), func() {
			for _, o := range others {
				c.w.Net.Heal(victim, o)
				c.w.Net.Heal(o, victim)
			}
		})
	case "oneway":
		a := live[g.Intn(len(live))]
		peers := append([]string{"coord"}, c.cl.NodeNames...)
		b := peers[g.Intn(len(peers))]
		if a == b {
			return
		}
		if g.Chance(50) {
			a, b = b, a
		}
		c.w.Net.Partition(a, b)
		d := time.Duration(g.Range(500, 30000)) * time.Millisecond
		c.plan = append(c.plan, fmt.Sprintf("t=%v block %s>%s for %v", c.r.Now(), a, b, d))
		c.r.Count("fault_oneway", 1)
		c.w.Net.After(d, fmt.Sprintf("heal1/%d", i), func() { c.w.Net.Heal(a, b) })
	case "swap":
		// replace one configured server by the spare: the coordinator's balancer moves its
		// replicas with SwapNode actions (one election per affected shard)
		c.cl.cfgMu.Lock()
		cfg := cloneConfig(c.cl.Config)
		c.cl.cfgMu.Unlock()
		if len(cfg.Servers) == 0 {
			return
		}
		idx := g.Intn(len(cfg.Servers))
		out := nodeOfAddr(cfg.Servers[idx].GetIdentifier())
		in := c.spares[0]
		cfg.Servers[idx] = serverOf(in)
		c.spares = append(c.spares[1:], out)
		c.plan = append(c.plan, fmt.Sprintf("t=%v swap %s->%s", c.r.Now(), out, in))
		c.r.Count("fault_swap", 1)
		c.swaps.Add(1)
		if g.Chance(45) {
			// the server is replaced because it (and possibly the shard's leader) cannot be reached:
			// the swap's election runs with part of the old ensemble silent
			silent := []string{out}
			if l := c.mon.currentLeader(int64(g.Intn(int(c.o.Shards)))); l != "" && l != out && g.Chance(50) {
				silent = append(silent, l)
			}
			others := append([]string{"coord"}, c.cl.NodeNames...)
			for _, v := range silent {
				for _, o := range others {
					if o != v {
						c.w.Net.Partition(v, o)
						c.w.Net.Partition(o, v)
					}
				}
			}
			d := time.Duration(g.Range(3000, 30000)) * time.Millisecond
			c.plan = append(c.plan, fmt.Sprintf("t=%v (swap with %v unreachable for %v)", c.r.Now(), silent, d))
			c.r.Count("fault_swap_with_unreachable_members", 1)
			c.w.Net.After(d, fmt.Sprintf("heal-swap/%d", i), func() {
				for _, v := range silent {
					for _, o := range others {
						c.w.Net.Heal(v, o)
						c.w.Net.Heal(o, v)
					}
				}
			})
		}
		c.cl.SetConfig(cfg)
	case "mutecoord":
		// the leader's answers to the coordinator are lost: the coordinator declares it dead and
		// fences the whole ensemble while the leader is alive and serving
		victim := c.mon.currentLeader(int64(g.Intn(int(c.o.Shards))))
		if victim == "" {
			return
		}
		c.w.Net.Partition(victim, "coord")
		d := time.Duration(g.Range(2500, 9000)) * time.Millisecond
		c.plan = append(c.plan, fmt.Sprintf("t=%v block %s>coord for %v", c.r.Now(), victim, d))
		c.r.Count("fault_mute_leader_to_coord", 1)
		c.w.Net.After(d, fmt.Sprintf("healmute/%d", i), func() { c.w.Net.Heal(victim, "coord") })
	case "coord":
		if c.cl.Coord == nil {
			return
		}
		c.plan = append(c.plan, fmt.Sprintf("t=%v crash coordinator", c.r.Now()))
		c.cl.CrashCoordinator()
		c.r.Count("fault_coord_crash", 1)
		d := time.Duration(g.Range(100, 15000)) * time.Millisecond
		c.w.Net.After(d, fmt.Sprintf("coord-restart/%d", i), func() {
			if c.cl.Coord == nil {
				c.cl.StartCoordinator()
			}
		})
	case "break":
		a := live[g.Intn(len(live))]
		b := live[g.Intn(len(live))]
		if a != b {
			n := c.w.Net.BreakStreams(a, b) + c.w.Net.BreakStreams(b, a)
			c.plan = append(c.plan, fmt.Sprintf("t=%v break streams %s<>%s (%d)", c.r.Now(), a, b, n))
			c.r.Count("fault_break_streams", int64(n))
		}
	}
}

// ---------------------------------------------------------------- run

// run executes the plan and returns true if the heal phase completed.
func (c *chaos) run() bool {
	r := c.r
	w := c.w
	w.Net.Tap = c.mon.tap
	if c.o.TriggerFence {
		w.Net.Hold = func(t *TapMsg, holds int) bool {
			if !strings.HasSuffix(t.Method, "/NewTerm") || t.Dst == "" {
				return false
			}
			// deliver as soon as the node has a goroutine parked inside an operation
			if w.Parked(t.Dst) > 0 {
				c.r.Count("fence_delivered_mid_operation", 1)
				return false
			}
			return holds < 300 && int(H(c.r.Seed, "hold", t.CallID)%100) < 70
		}
	}
	w.Net.TapSent = c.mon.tapSent
	w.Net.AfterEvent = c.mon.afterEvent
	c.cl.Meta.OnStore = c.mon.onStore
	c.cl.StartNodes()
	c.cl.StartCoordinator()
	ctl := w.NewClient("ctl", "default")
	ctl.FollowAssignments(c.cl.NodeNames)
	for i := 0; i < c.o.Clients; i++ {
		sc := w.NewClient(fmt.Sprintf("c%d", i), "default")
		sc.FollowAssignments(rotate(c.cl.NodeNames, i))
		c.clients = append(c.clients, sc)
	}
	healed := false
	ok := w.RunScript(ctl.EP, c.o.Window+40*time.Minute, func() {
		for s := int64(0); s < int64(c.o.Shards); s++ {
			if !waitLeader(r, ctl, s, 5*time.Minute) {
				r.Count("no_initial_leader", 1)
				r.Inconclusive = fmt.Sprintf("shard %d: no leader within 5 simulated minutes at start", s)
				return
			}
		}
		t0 := r.Now()
		// schedule faults inside the workload window
		for i := 0; i < c.o.Faults; i++ {
			if !r.KeepItem(i) {
				continue
			}
			i := i
			at := time.Duration(NewRng(r.Seed, "fault-at", i).Range(200, int(c.o.Window/time.Millisecond))) * time.Millisecond
			w.Net.After(at, fmt.Sprintf("fault/%d", i), func() { c.injectFault(i) })
		}
		var wg sync.WaitGroup
		for i, sc := range c.clients {
			i, sc := i, sc
			wg.Add(1)
			sc.EP.Go(func() {
				defer wg.Done()
				c.clientLoop(i, sc, time.Duration(NewRng(r.Seed, "cstart", i).Range(0, 2000))*time.Millisecond)
			})
		}
		wg.Wait()
		if r.Failed() {
			return
		}
		// wait for the end of the fault window, then heal
		if rem := t0 + c.o.Window - r.Now(); rem > 0 {
			time.Sleep(rem)
		}
		w.Net.HealAll()
		w.Net.cfg.DropPct, w.Net.cfg.DupPct = 0, 0
		c.cl.Meta.FailPct = 0
		w.YieldPct = 0
		time.Sleep(21 * time.Second) // pending restarts
		c.restartDeadNodes()
		if c.cl.Coord == nil {
			c.cl.StartCoordinator()
		}
		r.Logf("heal phase starts")
		c.mon.healing = true
		// bounded liveness: a fresh write per shard is acknowledged within 180 s
		for s := int64(0); s < int64(c.o.Shards); s++ {
			deadline := r.Now() + 180*time.Second
			done := false
			for r.Now() < deadline && !done {
				if l := ctl.Leader(s); l != "" {
					op := &histOp{Client: -1, Shard: s, Kind: opPut, Key: fmt.Sprintf("heal%d", s), Tag: fmt.Sprintf("heal-%d-%d", s, r.Now())}
					op.Invoke = c.Stamp()
					c.record(op)
					resp, node, err := ctl.Write(s, &proto.WriteRequest{Puts: []*proto.PutRequest{{Key: op.Key, Value: []byte(op.Tag)}}}, 10*time.Second)
					op.Node = node
					c.finishWrite(op, err, func() { op.Status = resp.Puts[0].Status; op.Version = resp.Puts[0].Version.GetVersionId() })
					if err == nil {
						done = true
						break
					}
				}
				time.Sleep(time.Second)
			}
			if !done {
				// Availability after faults is not part of C01..C05 as stated (they are safety
				// properties): record it, skip the end-state oracles, do not raise a violation.
				r.Count("heal_no_write_within_180s", 1)
				r.Inconclusive = fmt.Sprintf("shard %d: no write acknowledged within 180 simulated seconds after all faults stopped (client's leader %q; %s)", s, ctl.Leader(s), c.mon.describeShard(s))
				r.Logf("heal phase failed: %s", r.Inconclusive)
				return
			}
		}
		// followers reach the leader's head within 300 s
		deadline := r.Now() + 300*time.Second
		for r.Now() < deadline {
			if c.mon.allCaughtUp() {
				break
			}
			time.Sleep(2 * time.Second)
		}
		healed = true
	})
	if !ok && !r.Failed() {
		r.Fail("stuck", "run did not finish within the horizon; plan: %s", strings.Join(c.plan, "; "))
	}
	w.Net.AfterEvent = nil
	ctl.Stop()
	for _, sc := range c.clients {
		sc.Stop()
	}
	return healed && !r.Failed()
}

func rotate(s []string, k int) []string {
	out := make([]string, 0, len(s))
	for i := range s {
		out = append(out, s[(i+k)%len(s)])
	}
	return out
}

func (c *chaos) finish() {
	c.w.Net.Tap = nil
	kv.SimTermStoreFault = nil
	c.r.Sample = map[string]any{"plan": c.plan, "ops": len(c.hist)}
	c.r.Sig(strings.Join(sigOfPlan(c.plan), ";") + c.mon.sig())
	if len(c.plan) > 0 && c.r.Stat("ops_ok") > 5 {
		c.r.Count("nontrivial", 1)
	}
	stopAll(c.w, c.cl)
	c.w.Close()
}

// sigOfPlan strips times from plan entries.
func sigOfPlan(p []string) []string {
	var out []string
	for _, s := range p {
		if i := strings.IndexByte(s, ' '); i > 0 {
			s = s[i+1:]
		}
		if j := strings.Index(s, " for "); j > 0 {
			s = s[:j]
		}
		out = append(out, s)
	}
	return out
}

var _ = pb.Marshal
