package oxsim

// C02: the recorded client history of a chaos run is checked against a sequential model
// of one shard (a map key -> value tag) with porcupine.
//
//   - every written value is a unique tag, so each read is attributable to one write;
//   - operations are stamped with a global event sequence number at invoke and return;
//   - a write whose outcome is unknown (error, timeout, still pending) stays in the history
//     with an infinite return stamp: it may take effect once at any later point, or (placed
//     after everything else) never be observed;
//   - reads with an unknown outcome are dropped;
//   - the property's one relaxation: a read served by a leader of term T may return the
//     committed state of any moment after the fencing for a term > T began.  The call stamp of
//     such a read is moved back to the first delivery of a NewTerm request of a higher term.
//
// Version ids: every OK observation of a tag must report the same version id; conditional
// puts succeed exactly when the expected version id equals that of the current value.

import (
	"fmt"
	"sort"
	"strings"
	"time"

	"github.com/anishathalye/porcupine"

	"github.com/oxia-db/oxia/proto"
)

const linMaxKeys = 16

type linState [linMaxKeys]string // value tag per key index ("" = absent)

func keyIndex(k string) int {
	var i int
	if _, err := fmt.Sscanf(k, "k%d", &i); err != nil || i < 0 || i >= linMaxKeys {
		return -1
	}
	return i
}

type linChecker struct {
	verOf map[string]int64 // tag -> version id (from any OK observation)
}

func (lc *linChecker) step(state, input, output interface{}) (bool, interface{}) {
	st := state.(linState)
	op := input.(*histOp)
	ki := keyIndex(op.Key)
	cur := ""
	if ki >= 0 {
		cur = st[ki]
	}
	switch op.Kind {
	case opPut:
		if op.OK && op.Status != proto.Status_OK {
			return false, st
		}
		st[ki] = op.Tag
		return true, st
	case opCondPut:
		ev := *op.Expect
		match := false
		if cur == "" {
			match = ev == -1
		} else if v, ok := lc.verOf[cur]; ok {
			match = v == ev
		}
		if op.Unknown {
			if match {
				st[ki] = op.Tag
			}
			return true, st
		}
		switch op.Status {
		case proto.Status_OK:
			if !match {
				return false, st
			}
			st[ki] = op.Tag
			return true, st
		case proto.Status_UNEXPECTED_VERSION_ID:
			return !match, st
		}
		return false, st
	case opDelete:
		if op.Unknown {
			st[ki] = ""
			return true, st
		}
		switch op.Status {
		case proto.Status_OK:
			if cur == "" {
				return false, st
			}
			st[ki] = ""
			return true, st
		case proto.Status_KEY_NOT_FOUND:
			return cur == "", st
		}
		return false, st
	case opDeleteRange:
		if op.OK && op.Status != proto.Status_OK {
			return false, st
		}
		for i := 0; i < linMaxKeys; i++ {
			k := fmt.Sprintf("k%d", i)
			if st[i] != "" && refCompare(k, op.Key) >= 0 && refCompare(k, op.End) < 0 {
				st[i] = ""
			}
		}
		return true, st
	case opGet:
		switch op.Status {
		case proto.Status_OK:
			return cur == op.Value && cur != "", st
		case proto.Status_KEY_NOT_FOUND:
			return cur == "", st
		}
		return false, st
	case opList:
		var want []string
		for i := 0; i < linMaxKeys; i++ {
			if st[i] != "" {
				want = append(want, fmt.Sprintf("k%d", i))
			}
		}
		sort.Slice(want, func(a, b int) bool { return refCompare(want[a], want[b]) < 0 })
		if len(want) != len(op.Keys) {
			return false, st
		}
		for i := range want {
			if want[i] != op.Keys[i] {
				return false, st
			}
		}
		return true, st
	}
	return false, st
}

func describeOp(op *histOp) string {
	s := fmt.Sprintf("#%d c%d %s %s", op.ID, op.Client, op.Kind, op.Key)
	switch op.Kind {
	case opPut:
		s += "=" + op.Tag
	case opCondPut:
		s += fmt.Sprintf("=%s if-version=%d", op.Tag, *op.Expect)
	}
	switch {
	case op.Unknown || op.Return == 0:
		s += " -> ?"
	case op.Kind == opGet:
		s += fmt.Sprintf(" -> %v %q v%d", op.Status, op.Value, op.Version)
	case op.Kind == opList:
		s += fmt.Sprintf(" -> %v", op.Keys)
	default:
		s += fmt.Sprintf(" -> %v v%d", op.Status, op.Version)
	}
	s += fmt.Sprintf(" [%d,%d] @%s", op.Invoke, op.Return, op.Node)
	return s
}

// staleReadCall returns the (possibly earlier) call stamp of a read under the deposed-leader
// relaxation of C02.
func (c *chaos) staleReadCall(op *histOp) int64 {
	node := nodeOfAddr(op.Node)
	evs := c.mon.leadAt[node][op.Shard]
	tmin, found := int64(0), false
	for _, e := range evs { // in stamp order
		if e.stamp <= op.Invoke {
			tmin, found = e.term, true
		}
	}
	if !found {
		for _, e := range evs {
			if e.stamp > op.Invoke && e.stamp <= op.Return {
				tmin, found = e.term, true
				break
			}
		}
	}
	if !found {
		return op.Invoke
	}
	call := op.Invoke
	for term, st := range c.mon.fenceStamp[op.Shard] {
		if term > tmin && st < call {
			call = st
		}
	}
	return call
}

// checkLinearizability runs after the bubble has ended.
func (c *chaos) checkLinearizability() {
	r := c.r
	c.mu.Lock()
	hist := append([]*histOp(nil), c.hist...)
	c.mu.Unlock()
	lc := &linChecker{verOf: map[string]int64{}}
	written := map[string]*histOp{}
	maxStamp := c.stamp.Load() + 1
	for _, op := range hist {
		if op.Kind == opPut || op.Kind == opCondPut {
			written[op.Tag] = op
		}
	}
	// version ids: one per tag, the same in every observation
	note := func(op *histOp, tag string, v int64) bool {
		if prev, ok := lc.verOf[tag]; ok && prev != v {
			r.Fail("version-id-differs-between-observations", "value %s was reported with version id %d and with version id %d (%s)", tag, prev, v, describeOp(op))
			return false
		}
		lc.verOf[tag] = v
		return true
	}
	for _, op := range hist {
		if !op.OK || op.Status != proto.Status_OK {
			continue
		}
		switch op.Kind {
		case opPut, opCondPut:
			if !note(op, op.Tag, op.Version) {
				return
			}
		case opGet:
			w := written[op.Value]
			if w == nil || w.Key != op.Key {
				r.Fail("read-of-never-written-value", "%s: no client wrote that value under that key", describeOp(op))
				return
			}
			if w.Invoke > op.Return {
				r.Fail("read-from-the-future", "%s returned a value whose write was only invoked at stamp %d", describeOp(op), w.Invoke)
				return
			}
			if !note(op, op.Value, op.Version) {
				return
			}
		}
	}
	byShard := map[int64][]porcupine.Operation{}
	relaxed := 0
	for _, op := range hist {
		isRead := op.Kind == opGet || op.Kind == opList
		pending := op.Unknown || op.Return == 0 || !op.OK
		if isRead && pending {
			continue
		}
		if keyIndex(op.Key) < 0 {
			continue
		}
		po := porcupine.Operation{ClientId: op.Client, Input: op, Output: op, Call: op.Invoke, Return: op.Return}
		if pending {
			op.Unknown = true
			po.Return = maxStamp
		}
		if isRead {
			if cs := c.staleReadCall(op); cs < op.Invoke {
				po.Call = cs
				relaxed++
			}
		}
		byShard[op.Shard] = append(byShard[op.Shard], po)
	}
	r.Count("reads_relaxed_deposed_leader", int64(relaxed))
	model := porcupine.Model{
		Init:  func() interface{} { return linState{} },
		Step:  lc.step,
		Equal: func(a, b interface{}) bool { return a.(linState) == b.(linState) },
		DescribeOperation: func(in, out interface{}) string { return describeOp(in.(*histOp)) },
	}
	var shards []int64
	for s := range byShard {
		shards = append(shards, s)
	}
	sort.Slice(shards, func(i, j int) bool { return shards[i] < shards[j] })
	for _, s := range shards {
		ops := byShard[s]
		// porcupine wants one client to have at most one outstanding operation: unknown writes
		// of a client overlap its later operations, so give each its own client id
		next := 1000
		for i := range ops {
			if ops[i].Return == maxStamp || ops[i].Call != ops[i].Input.(*histOp).Invoke {
				ops[i].ClientId = next
				next++
			}
		}
		res := porcupine.CheckOperationsTimeout(model, ops, 20*time.Second)
		r.Count("lin_ops_checked", int64(len(ops)))
		switch res {
		case porcupine.Ok:
			r.Count("lin_histories_ok", 1)
		case porcupine.Unknown:
			r.Count("lin_histories_timeout", 1)
			if r.Inconclusive == "" {
				r.Inconclusive = "linearizability search timed out"
			}
		case porcupine.Illegal:
			r.Fail("history-not-linearizable", "shard %d: %s", s, c.explainIllegal(model, ops, maxStamp))
			return
		}
	}
}

// explainIllegal finds the shortest prefix (by return stamp) of the history that is already
// not linearizable and prints the operations on the keys of the operation that completes it.
func (c *chaos) explainIllegal(model porcupine.Model, ops []porcupine.Operation, maxStamp int64) string {
	var rets []int64
	for _, o := range ops {
		if o.Return != maxStamp {
			rets = append(rets, o.Return)
		}
	}
	sort.Slice(rets, func(i, j int) bool { return rets[i] < rets[j] })
	cut := func(upto int64) []porcupine.Operation {
		var out []porcupine.Operation
		for _, o := range ops {
			if o.Call > upto {
				continue
			}
			if o.Return > upto {
				h := o.Input.(*histOp)
				if h.Kind == opGet || h.Kind == opList {
					continue
				}
				hc := *h
				hc.Unknown, hc.OK = true, false
				o.Input, o.Output, o.Return = &hc, &hc, maxStamp
			}
			out = append(out, o)
		}
		return out
	}
	lo, hi := 0, len(rets)-1
	for lo < hi {
		mid := (lo + hi) / 2
		if porcupine.CheckOperationsTimeout(model, cut(rets[mid]), 10*time.Second) == porcupine.Illegal {
			hi = mid
		} else {
			lo = mid + 1
		}
	}
	var last *histOp
	for _, o := range ops {
		if o.Return == rets[lo] {
			last = o.Input.(*histOp)
		}
	}
	if last == nil {
		return "history not linearizable"
	}
	var lines []string
	for _, o := range ops {
		h := o.Input.(*histOp)
		if o.Call > rets[lo] {
			continue
		}
		if last.Kind == opList || h.Kind == opList || h.Key == last.Key || (h.Kind == opDeleteRange && refCompare(last.Key, h.Key) >= 0 && refCompare(last.Key, h.End) < 0) {
			d := describeOp(h)
			if o.Call != h.Invoke {
				d += fmt.Sprintf(" (deposed-leader read, may linearize from stamp %d)", o.Call)
			}
			lines = append(lines, d)
		}
	}
	if len(lines) > 40 {
		lines = lines[len(lines)-40:]
	}
	return fmt.Sprintf("no sequential order explains %s; operations on the same key(s) up to that point: %s", describeOp(last), strings.Join(lines, "; "))
}

func runC02(r *Run) {
	var ch *chaos
	runChaosPropWith(r, "C02", func(o *chaosOpts, g *Rng) {
		o.Keys = g.Range(2, 5)
		o.Clients = g.Range(3, 6)
		o.CheckLinearizability = true
		o.Yields = g.Chance(80)
		o.TriggerFence = g.Chance(40)
		o.FencePressure = g.Chance(40)
		o.ReadPct = g.Range(30, 60)
	}, func(c *chaos) { ch = c })
	if ch != nil {
		r.Post = append(r.Post, func() {
			if !r.Failed() {
				ch.checkLinearizability()
			}
		})
	}
}

func init() { registry["C02"] = runC02 }
