package oxsim

// C12 (and the shared W2 workload engine): random write requests through the leader's public
// Write handler, compared field by field with the reference model; restarts in between.

import (
	"bytes"
	"fmt"
	"path/filepath"
	"strings"
	"time"

	"github.com/oxia-db/oxia/proto"
	"github.com/oxia-db/oxia/server"
	"github.com/oxia-db/oxia/server/wal"
)

func defaultNetCfg(g *Rng) NetConfig {
	return NetConfig{MinLatency: 50 * time.Microsecond, MaxLatency: time.Duration(g.Range(200, 3000)) * time.Microsecond}
}

type w2Opts struct {
	sessions, indexes, sequences, bigRanges, restarts, crashes bool
	nops int
	cfgMod func(*server.Config)
	preStart func(w *World) // after the world exists, before the first node starts
	netMod func(*NetConfig)
}

var c12Keys = []string{"a", "b", "c", "d", "k/1", "k/2", "k/3", "k/1/x", "k/1/y", "k/2/x", "/", "/a", "a/", "m-n", "z", "zz/top/deep/er",
	"tenant-alpha/cfg", "tenant-alpha/x", "zookeeper-1/leader"} // first path element longer than the 8 bytes the engine abbreviates batch keys to

// w2Workload drives a single-shard node and checks every response against the model.
type w2Workload struct {
	burstInReq map[string]int // shared sequence-delta floors while generating concurrent requests
	notifRetention time.Duration // 0 = nothing is ever trimmed within a run
	seqPrefixes []string // sequence prefixes used by genSeqPut (default: seq, seq/a, q)
	r    *Run
	w    *World
	c    *shardCtl
	g    *Rng
	opts w2Opts
	sessions []int64 // created session ids (alive or closed)
	closed   map[int64]bool
	nodeDir  string
	incN     int
	prog     []string
	failClassPrefix string
}

func (wl *w2Workload) fail(class, f string, a ...any) { wl.r.Fail(wl.failClassPrefix+class, f, a...) }

func ptr[T any](v T) *T { return &v }

func (wl *w2Workload) genKey(g *Rng) string {
	if g.Chance(10) {
		return fmt.Sprintf("bulk/%03d", g.Intn(160))
	}
	return c12Keys[g.Intn(len(c12Keys))]
}

func (wl *w2Workload) genPut(g *Rng) *proto.PutRequest {
	p := &proto.PutRequest{Key: wl.genKey(g), Value: g.Bytes(g.Range(0, 24))}
	cur, exists := wl.c.model.Recs[p.Key]
	switch g.Intn(10) {
	case 0:
		p.ExpectedVersionId = ptr(int64(-1))
	case 1:
		if exists {
			p.ExpectedVersionId = ptr(cur.Version)
		} else {
			p.ExpectedVersionId = ptr(int64(-1))
		}
	case 2:
		p.ExpectedVersionId = ptr(int64(g.Range(0, int(wl.c.model.LastVersion)+3))) // stale / future / accidental hit
	}
	if wl.opts.sessions && len(wl.sessions) > 0 && g.Chance(30) {
		p.SessionId = ptr(wl.sessions[g.Intn(len(wl.sessions))])
		if g.Chance(5) {
			p.SessionId = ptr(int64(999999)) // never existed
		}
		p.ClientIdentity = ptr(fmt.Sprintf("client-%d", g.Intn(3)))
	}
	if wl.opts.indexes && g.Chance(40) {
		n := g.Range(1, 3)
		for i := 0; i < n; i++ {
			p.SecondaryIndexes = append(p.SecondaryIndexes, &proto.SecondaryIndex{
				IndexName:    []string{"idx", "idx-a", "idy"}[g.Intn(3)],
				SecondaryKey: []string{"s1", "s2", "s/3", "s2/x", "t"}[g.Intn(5)],
			})
		}
	}
	if g.Chance(15) {
		p.PartitionKey = ptr("pk")
	}
	return p
}

func (wl *w2Workload) genSeqPut(g *Rng, inReq map[string]int) *proto.PutRequest {
	prefixes := wl.seqPrefixes
	if len(prefixes) == 0 {
		prefixes = []string{"seq", "seq/a", "q"}
	}
	p := &proto.PutRequest{Key: prefixes[g.Intn(len(prefixes))], Value: g.Bytes(4), PartitionKey: ptr("pk")}
	nd := g.Range(1, 3)
	if nd < inReq[p.Key] {
		nd = inReq[p.Key]
	}
	// keep the number of deltas >= the suffix count already used for this prefix
	maxParts := 0
	for k := range wl.c.model.Recs {
		if strings.HasPrefix(k, p.Key+"-") {
			if ps, ok := seqSuffixes(p.Key, k); ok && len(ps) > maxParts {
				maxParts = len(ps)
			}
		}
	}
	if nd < maxParts {
		nd = maxParts
	}
	if wl.burstInReq != nil {
		// concurrent requests are logged in an order the generator does not know: one
		// suffix count per prefix for the whole burst
		if v, ok := wl.burstInReq[p.Key]; ok {
			nd = v
		}
	}
	for i := 0; i < nd; i++ {
		d := uint64(g.Range(0, 5))
		if i == 0 {
			d = uint64(g.Range(1, 5))
		}
		p.SequenceKeyDelta = append(p.SequenceKeyDelta, d)
	}
	inReq[p.Key] = nd
	return p
}

func (wl *w2Workload) genRequest(g *Rng) *proto.WriteRequest {
	req := &proto.WriteRequest{}
	np := g.Range(0, 4)
	inReq := map[string]int{}
	if wl.burstInReq != nil {
		inReq = wl.burstInReq
	}
	for i := 0; i < np; i++ {
		if wl.opts.sequences && g.Chance(20) {
			req.Puts = append(req.Puts, wl.genSeqPut(g, inReq))
		} else {
			req.Puts = append(req.Puts, wl.genPut(g))
		}
	}
	nd := g.Range(0, 2)
	for i := 0; i < nd; i++ {
		d := &proto.DeleteRequest{Key: wl.genKey(g)}
		if cur, ok := wl.c.model.Recs[d.Key]; ok && g.Chance(30) {
			d.ExpectedVersionId = ptr(cur.Version)
		} else if g.Chance(15) {
			d.ExpectedVersionId = ptr(int64(g.Range(-1, int(wl.c.model.LastVersion)+2)))
		}
		req.Deletes = append(req.Deletes, d)
	}
	if g.Chance(25) {
		a, b := wl.genKey(g), wl.genKey(g)
		if refCompare(a, b) > 0 {
			a, b = b, a
		}
		if spansInternal(a, b) {
			b = a // keep user ranges clear of the internal key region (that is C13's subject)
		}
		req.DeleteRanges = append(req.DeleteRanges, &proto.DeleteRangeRequest{StartInclusive: a, EndExclusive: b})
	}
	if wl.opts.bigRanges && g.Chance(6) {
		req.DeleteRanges = append(req.DeleteRanges, &proto.DeleteRangeRequest{StartInclusive: "bulk/", EndExclusive: "bulk/~"})
	}
	if wl.opts.bigRanges && g.Chance(8) {
		// a range holding about as many keys as the engine's switch from per-key deletes to a range tombstone
		from := g.Intn(50)
		req.DeleteRanges = append(req.DeleteRanges, &proto.DeleteRangeRequest{StartInclusive: fmt.Sprintf("bulk/%03d", from), EndExclusive: fmt.Sprintf("bulk/%03d", from+90+g.Intn(21))})
	}
	if len(req.Puts)+len(req.Deletes)+len(req.DeleteRanges) == 0 {
		req.Puts = append(req.Puts, wl.genPut(g))
	}
	return req
}

func describeReq(req *proto.WriteRequest) string {
	var sb strings.Builder
	for _, p := range req.Puts {
		fmt.Fprintf(&sb, "put(%s", p.Key)
		if p.ExpectedVersionId != nil {
			fmt.Fprintf(&sb, ",ev=%d", *p.ExpectedVersionId)
		}
		if p.SessionId != nil {
			fmt.Fprintf(&sb, ",s=%d", *p.SessionId)
		}
		if len(p.SequenceKeyDelta) > 0 {
			fmt.Fprintf(&sb, ",seq=%v", p.SequenceKeyDelta)
		}
		if len(p.SecondaryIndexes) > 0 {
			fmt.Fprintf(&sb, ",idx=%d", len(p.SecondaryIndexes))
		}
		sb.WriteString(") ")
	}
	for _, d := range req.Deletes {
		fmt.Fprintf(&sb, "del(%s", d.Key)
		if d.ExpectedVersionId != nil {
			fmt.Fprintf(&sb, ",ev=%d", *d.ExpectedVersionId)
		}
		sb.WriteString(") ")
	}
	for _, d := range req.DeleteRanges {
		fmt.Fprintf(&sb, "delrange[%s,%s) ", d.StartInclusive, d.EndExclusive)
	}
	return sb.String()
}

func eqVersion(g, w *proto.Version) string {
	switch {
	case g == nil && w == nil:
		return ""
	case g == nil || w == nil:
		return fmt.Sprintf("version presence differs (got %v, want %v)", g, w)
	case g.VersionId != w.VersionId:
		return fmt.Sprintf("version id %d, expected %d", g.VersionId, w.VersionId)
	case g.ModificationsCount != w.ModificationsCount:
		return fmt.Sprintf("modifications count %d, expected %d", g.ModificationsCount, w.ModificationsCount)
	case g.CreatedTimestamp != w.CreatedTimestamp:
		return fmt.Sprintf("created timestamp %d, expected %d", g.CreatedTimestamp, w.CreatedTimestamp)
	case g.ModifiedTimestamp != w.ModifiedTimestamp:
		return fmt.Sprintf("modified timestamp %d, expected %d", g.ModifiedTimestamp, w.ModifiedTimestamp)
	case !eqI64p(g.SessionId, w.SessionId):
		return "session id differs"
	case !eqStrp(g.ClientIdentity, w.ClientIdentity):
		return "client identity differs"
	}
	return ""
}

// compareWriteResponse checks the real response against the model's.
func compareWriteResponse(got, want *proto.WriteResponse, outs []refPutOutcome, req *proto.WriteRequest) string {
	if len(got.Puts) != len(want.Puts) || len(got.Deletes) != len(want.Deletes) || len(got.DeleteRanges) != len(want.DeleteRanges) {
		return fmt.Sprintf("response shape %d/%d/%d, expected %d/%d/%d", len(got.Puts), len(got.Deletes), len(got.DeleteRanges),
			len(want.Puts), len(want.Deletes), len(want.DeleteRanges))
	}
	for i, gp := range got.Puts {
		wp := want.Puts[i]
		if outs[i].Unspecified {
			continue
		}
		if gp.Status != wp.Status {
			return fmt.Sprintf("put #%d (%s): status %v, expected %v", i, req.Puts[i].Key, gp.Status, wp.Status)
		}
		if gp.Status == proto.Status_OK {
			if m := eqVersion(gp.Version, wp.Version); m != "" {
				return fmt.Sprintf("put #%d (%s): %s", i, req.Puts[i].Key, m)
			}
			if !eqStrp(gp.Key, wp.Key) {
				return fmt.Sprintf("put #%d: generated key %v, expected %v", i, strp(gp.Key), strp(wp.Key))
			}
		}
	}
	for i, gd := range got.Deletes {
		wd := want.Deletes[i]
		if gd.Status != wd.Status {
			// deleting an absent key with an expected version: either failure status is within the spec
			if _, absent := map[proto.Status]bool{proto.Status_KEY_NOT_FOUND: true, proto.Status_UNEXPECTED_VERSION_ID: true}[gd.Status]; absent &&
				wd.Status == proto.Status_UNEXPECTED_VERSION_ID && req.Deletes[i].ExpectedVersionId != nil && gd.Status == proto.Status_KEY_NOT_FOUND {
				continue
			}
			return fmt.Sprintf("delete #%d (%s): status %v, expected %v", i, req.Deletes[i].Key, gd.Status, wd.Status)
		}
	}
	for i, gd := range got.DeleteRanges {
		if gd.Status != want.DeleteRanges[i].Status {
			return fmt.Sprintf("delete-range #%d: status %v", i, gd.Status)
		}
	}
	return ""
}

func strp(s *string) string {
	if s == nil {
		return "<nil>"
	}
	return *s
}

// checkReads samples reads against the model.
func (wl *w2Workload) checkReads(g *Rng, n int) {
	if _, _, err := wl.c.foldNew(); err != nil {
		wl.fail("log-error", "reading the log: %v", err)
		return
	}
	m := wl.c.model
	flat := m.flatKeys(true)
	for i := 0; i < n && !wl.r.Failed(); i++ {
		key := wl.genKey(g)
		ct := proto.KeyComparisonType(g.Intn(5))
		want := refLookup(flat, key, ct)
		if want != "" {
			if _, isRec := m.Recs[want]; !isRec {
				continue // neighbour is an internal key whose representation is not specified
			}
		}
		grs, err := wl.c.read(&proto.GetRequest{Key: key, IncludeValue: true, ComparisonType: ct})
		if err != nil || len(grs) != 1 {
			wl.fail("read-error", "get(%q,%v) failed: %v", key, ct, err)
			return
		}
		gr := grs[0]
		if want == "" {
			if gr.Status != proto.Status_KEY_NOT_FOUND {
				wl.fail("read-mismatch", "get(%q,%v) returned status %v key %s, expected not-found", key, ct, gr.Status, strp(gr.Key))
			}
			continue
		}
		rec := m.Recs[want]
		if gr.Status != proto.Status_OK {
			wl.fail("read-mismatch", "get(%q,%v) returned %v, expected key %q", key, ct, gr.Status, want)
			return
		}
		if ct != proto.KeyComparisonType_EQUAL && (gr.Key == nil || *gr.Key != want) {
			wl.fail("read-mismatch", "get(%q,%v) returned key %s, expected %q", key, ct, strp(gr.Key), want)
			return
		}
		if !bytes.Equal(gr.Value, rec.Value) {
			wl.fail("read-mismatch", "get(%q,%v): value differs", key, ct)
			return
		}
		if msg := eqVersion(gr.Version, refVersionProto(rec)); msg != "" {
			wl.fail("read-mismatch", "get(%q,%v): %s", key, ct, msg)
			return
		}
		wl.r.Count("reads_checked", 1)
	}
	if g.Chance(40) && !wl.r.Failed() {
		a, b := wl.genKey(g), wl.genKey(g)
		if refCompare(a, b) > 0 {
			a, b = b, a
		}
		if spansInternal(a, b) {
			return
		}
		want := refRange(flat, a, b)
		got, err := wl.c.list(a, b, nil)
		if err != nil {
			wl.fail("read-error", "list[%q,%q) failed: %v", a, b, err)
			return
		}
		if strings.Join(got, "\x00") != strings.Join(want, "\x00") {
			wl.fail("list-mismatch", "list[%q,%q) = %q, expected %q", a, b, got, want)
			return
		}
		rs, err := wl.c.rangeScan(a, b, nil)
		if err != nil {
			wl.fail("read-error", "range-scan[%q,%q) failed: %v", a, b, err)
			return
		}
		if len(rs) != len(want) {
			wl.fail("scan-mismatch", "range-scan[%q,%q) returned %d records, expected %d", a, b, len(rs), len(want))
			return
		}
		for i, gr := range rs {
			if gr.Key == nil || *gr.Key != want[i] {
				wl.fail("scan-mismatch", "range-scan[%q,%q) record %d is %s, expected %q", a, b, i, strp(gr.Key), want[i])
				return
			}
			if rec, ok := m.Recs[want[i]]; ok {
				if !bytes.Equal(gr.Value, rec.Value) || eqVersion(gr.Version, refVersionProto(rec)) != "" {
					wl.fail("scan-mismatch", "range-scan record %q differs from the model: %s", want[i], eqVersion(gr.Version, refVersionProto(rec)))
					return
				}
			}
		}
		wl.r.Count("ranges_checked", 1)
	}
}

func (wl *w2Workload) checkDump(where string) {
	v := wl.c.view()
	if v == nil || v.DB == nil {
		wl.fail("no-view", "%s: shard not hosted", where)
		return
	}
	if _, _, err := wl.c.foldNew(); err != nil {
		wl.fail("log-error", "reading the log: %v", err)
		return
	}
	dump, err := dumpDB(v.DB)
	if err != nil {
		wl.fail("dump-error", "%s: %v", where, err)
		return
	}
	if msg := wl.c.model.compareDump(dump, true); msg != "" {
		wl.fail("state-mismatch", "%s: %s", where, msg)
	}
	wl.r.Count("dumps_checked", 1)
}

// doWrite sends one request and compares the response with the model.
func (wl *w2Workload) doWrite(req *proto.WriteRequest) bool {
	desc := describeReq(req)
	wl.prog = append(wl.prog, desc)
	resp, err := wl.c.write(req)
	wl.r.Logf("write %s -> err=%v", desc, err)
	if err != nil {
		wl.fail("write-error", "write %s failed: %v", desc, err)
		return false
	}
	want, outs, ferr := wl.c.foldNew()
	if ferr != nil || want == nil {
		wl.fail("log-missing", "acknowledged write %s is not in the leader's log: %v", desc, ferr)
		return false
	}
	if msg := compareWriteResponse(resp, want, outs, req); msg != "" {
		wl.fail("response-mismatch", "write {%s}: %s", desc, msg)
		return false
	}
	wl.r.Count("writes_checked", 1)
	return true
}

func (wl *w2Workload) createSession(timeoutMs uint32) (int64, bool) {
	cl := wl.c.client()
	ctx, cancel := ctxTimeout(60 * time.Second)
	defer cancel()
	res, err := cl.CreateSession(ctx, &proto.CreateSessionRequest{Shard: wl.c.shard, SessionTimeoutMs: timeoutMs, ClientIdentity: "sess-owner"})
	if err != nil {
		wl.fail("session-error", "CreateSession failed: %v", err)
		return 0, false
	}
	if _, _, err := wl.c.foldNew(); err != nil {
		wl.fail("log-missing", "fold after CreateSession: %v", err)
		return 0, false
	}
	if _, ok := wl.c.model.Recs[refSessionKey(res.SessionId)]; !ok {
		wl.fail("session-missing", "session %d acknowledged but its record is not in the committed log", res.SessionId)
		return 0, false
	}
	wl.sessions = append(wl.sessions, res.SessionId)
	wl.prog = append(wl.prog, fmt.Sprintf("create-session=%d", res.SessionId))
	wl.r.Count("sessions_created", 1)
	return res.SessionId, true
}

func (wl *w2Workload) closeSession(id int64) bool {
	cl := wl.c.client()
	ctx, cancel := ctxTimeout(60 * time.Second)
	defer cancel()
	_, err := cl.CloseSession(ctx, &proto.CloseSessionRequest{Shard: wl.c.shard, SessionId: id})
	wl.prog = append(wl.prog, fmt.Sprintf("close-session=%d", id))
	if err != nil {
		wl.fail("session-error", "CloseSession(%d) failed: %v", id, err)
		return false
	}
	wl.closed[id] = true
	if _, _, err := wl.c.foldNew(); err != nil {
		wl.fail("log-missing", "fold after CloseSession: %v", err)
		return false
	}
	wl.r.Count("sessions_closed", 1)
	return true
}

// restart stops the node gracefully and starts a new incarnation on the same directory.
func (wl *w2Workload) restart() bool {
	wl.prog = append(wl.prog, "restart")
	wl.c.node.Stop()
	if wl.c.node.CloseStuck {
		return false
	}
	wl.c.node = wl.w.StartNode("n1", wl.nodeDir, wl.opts.cfgMod)
	if wl.c.node.startErr != nil {
		wl.fail("restart-error", "node failed to start: %v", wl.c.node.startErr)
		return false
	}
	if err := wl.c.elect(); err != nil {
		wl.fail("elect-error", "election after restart failed: %v", err)
		return false
	}
	// sessions alive in the DB are re-armed by the new leader; nothing to do in the model
	wl.r.Count("restarts", 1)
	return true
}

func newW2(r *Run, tag string, opts w2Opts) *w2Workload {
	g := NewRng(r.Seed, tag)
	ncfg := defaultNetCfg(g)
	if opts.netMod != nil {
		opts.netMod(&ncfg)
	}
	w := NewWorld(r, ncfg)
	wal.DefaultFactoryOptions.SegmentSize = int32([]int{2048, 8192, 65536, 1 << 20}[g.Intn(4)])
	r.Knobs["wal_segment"] = wal.DefaultFactoryOptions.SegmentSize
	wl := &w2Workload{r: r, w: w, g: g, opts: opts, closed: map[int64]bool{}}
	wl.nodeDir = filepath.Join(w.Root, "n1")
	if opts.preStart != nil {
		opts.preStart(w)
	}
	node := w.StartNode("n1", wl.nodeDir, opts.cfgMod)
	wl.c = newShardCtl(w, node)
	return wl
}

func runC12(r *Run) {
	wl := newW2(r, "c12", w2Opts{sessions: true, indexes: true, sequences: true, bigRanges: true, restarts: true})
	defer wl.w.Close()
	g := wl.g
	nops := g.Range(8, 40)
	if r.Tier == "thorough" {
		nops = g.Range(8, 120)
	}
	r.Knobs["plan_size"] = nops
	r.Sample = &wl.prog
	if g.Chance(40) {
		// notifications are a per-term option: some terms run without them
		wl.c.notifChooser = func(term int64) bool { return H(r.Seed, "notif-term", term)%100 < 55 }
		r.Knobs["notifications"] = "per-term"
	}
	ok := wl.w.RunScript(wl.c.ctl, 4*time.Hour, func() {
		if wl.c.node.startErr != nil {
			wl.fail("start-error", "%v", wl.c.node.startErr)
			return
		}
		if err := wl.c.elect(); err != nil {
			wl.fail("elect-error", "initial election failed: %v", err)
			return
		}
		bulk := g.Chance(35)
		if bulk { // preload so that range deletes cross the engine's range-tombstone switch
			for b := 0; b < 160 && !r.Failed(); b += 40 {
				req := &proto.WriteRequest{}
				for i := b; i < b+40; i++ {
					req.Puts = append(req.Puts, &proto.PutRequest{Key: fmt.Sprintf("bulk/%03d", i), Value: []byte{byte(i)}})
				}
				if !wl.doWrite(req) {
					return
				}
			}
			r.Count("bulk_preload", 1)
		}
		for i := 0; i < nops && !r.Failed(); i++ {
			if !r.KeepItem(i) {
				continue
			}
			gi := NewRng(r.Seed, "c12op", i)
			k := gi.Intn(100)
			switch {
			case k < 8:
				wl.createSession(300000) // never expires within a run: expiry is C14's subject
			case k < 12 && len(wl.sessions) > 0:
				id := wl.sessions[gi.Intn(len(wl.sessions))]
				if !wl.closed[id] {
					wl.closeSession(id)
				}
			case k < 18:
				wl.restart()
			case k < 24:
				time.Sleep(time.Duration(gi.Range(1, 1000)) * time.Millisecond)
			default:
				wl.doWrite(wl.genRequest(gi))
			}
			if !r.Failed() {
				wl.checkReads(gi, 3)
			}
			if !r.Failed() && gi.Chance(15) {
				wl.checkDump(fmt.Sprintf("after op %d", i))
			}
		}
		if !r.Failed() {
			wl.checkDump("final")
		}
	})
	if !ok && !r.Failed() {
		r.Fail("stuck", "script did not finish within the horizon (%d steps so far): %s", len(wl.prog), lastOf(wl.prog))
	}
	wl.c.node.Stop()
	r.Sig(strings.Join(wl.prog, ";"))
	if r.Stat("writes_checked") > 3 {
		r.Count("nontrivial", 1)
	}
}

func lastOf(p []string) string {
	if len(p) == 0 {
		return ""
	}
	return p[len(p)-1]
}

func init() { registry["C12"] = runC12 }

// spansInternal tells whether [a,b) in the hierarchical order reaches into the region of
// internal keys ("__oxia/...").
func spansInternal(a, b string) bool {
	lo, hi := internalPrefix, internalPrefix+"\xff\xff/\xff/\xff/\xff"
	return refCompare(a, hi) <= 0 && refCompare(b, lo) > 0
}
