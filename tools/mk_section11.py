#!/usr/bin/env python3
"""Regenerates §11 of DESIGN.md (seeded defects table) from seeded/*/meta.json."""
import json, os, re, glob
V = os.path.dirname(os.path.dirname(os.path.abspath(__file__)))
rows = []
for d in sorted(glob.glob(os.path.join(V, "seeded", "C*"))):
    m = json.load(open(os.path.join(d, "meta.json")))
    name = os.path.basename(d)
    summ = re.sub(r"\s+", " ", m.get("summary") or "")
    first = summ.split(". ")[0][:230]
    det = m.get("detected_by") or []
    if det:
        cl = ", ".join(sorted(set(det[0].get("violation_classes") or []))) or "violation"
        res = "%s → %s" % (det[0]["check"].replace("./check ", ""), cl)
    else:
        res = m.get("not_detected_note", "not detected")
    rows.append("| %s | %s | %s | %s |" % (name, ", ".join(m.get("files_changed") or []), first.replace("|", "/"), res.replace("|", "/")))
out = """## 11. Seeded defects and what the checks report for them

Each row is a change made by a fresh sub-agent that saw only the property text and its own
scratch worktree: it breaks the property under something specific, compiles, and passes the
existing test suite (confirmed here: the agent's demonstration test passes on the clean tree
and fails with the patch; the touched packages' tests and the whole suite pass with the
patch). Patch, demonstration and notes are under `seeded/<id>/`; none is ever committed to
`/repo`. `tools/seed_matrix.sh` applies each patch, runs the check of its property (quick
tier, with a larger seed count for the properties whose defects need several elections) and
reverts; the last column is what that run printed. Where the check of the property itself stays
quiet the script tries the check named for that change in its `ALT` table — a change seeded
against one property can be visible only through the oracle of another (a delete-range defect filed
under C02 is a C12 state mismatch; a torn read of the coordinator's status record filed under C05
needs the config-change histories of C18; a leader that applies an uncommitted tail, filed under C07,
is caught by the C03 commit ledger). """ + str(len(rows)) + """ changes in four waves; a change that an accepted repair has
since made harmless says so in the last column.

| seed | file changed | change (first sentence of the author's summary) | reported by |
|---|---|---|---|
""" + "\n".join(rows) + "\n"
s = open(os.path.join(V, "DESIGN.md")).read()
if "@@SECTION11@@" in s:
    s = s.replace("@@SECTION11@@", out.rstrip())
else:
    a = s.index("## 11. Seeded defects")
    b = s.index("--------------------------------------------------------------------------------", a)
    s = s[:a] + out.rstrip() + "\n\n" + s[b:]
open(os.path.join(V, "DESIGN.md"), "w").write(s)
print("section 11:", len(rows), "rows")
