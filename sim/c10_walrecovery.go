package oxsim

// C10: WAL recovery after crash or corruption yields a clean prefix or an error.

import (
	"bytes"
	"context"
	"encoding/binary"
	"fmt"
	"os"
	"path/filepath"
	"runtime"
	"sort"
	"strings"
	"time"

	"github.com/oxia-db/oxia/proto"
	"github.com/oxia-db/oxia/server/wal"
	pb "google.golang.org/protobuf/proto"
)

type c10Case struct {
	Format   string `json:"format"`
	SegSize  int32  `json:"segment_size"`
	Appended int    `json:"appended"`
	Synced   int    `json:"synced"`
	Commit   int64  `json:"commit_offset"`
	Mode     string `json:"mode"`
	Mutation string `json:"mutation,omitempty"`
	Result   string `json:"result,omitempty"`
}

// recRange locates one record (header+payload) inside a segment file.
type recRange struct {
	file       string
	off, end   int // byte range [off,end) of header+payload
	entry      int64
	lastSeg    bool
	hdr        int
}

func runC10(r *Run) {
	g := NewRng(r.Seed, "c10")
	cs := &c10Case{Format: "v2"}
	r.Sample = cs
	if g.Chance(20) {
		cs.Format = "v1"
	}
	hdr := 12
	txnExt, idxExt := ".txnx", ".idxx"
	if cs.Format == "v1" {
		hdr = 4
		txnExt, idxExt = ".txn", ".idx"
	}
	cs.SegSize = []int32{128, 160, 256, 512, 1024}[g.Intn(5)]
	maxVal := int(cs.SegSize) - hdr - 40
	if maxVal > 120 {
		maxVal = 120
	}
	first := int64(0)
	if g.Chance(25) {
		first = int64(g.Range(1, 30))
	}
	n := g.Range(1, 30)

	dir := newScratchDir("c10")
	img := newScratchDir("c10img")
	defer os.RemoveAll(dir)
	defer os.RemoveAll(img)
	defer func() {
		if r.Failed() && os.Getenv("OXSIM_KEEP_IMG") != "" {
			_ = copyTree(img, fmt.Sprintf("/tmp/c10fail-%d/img", r.Seed))
			_ = copyTree(dir, fmt.Sprintf("/tmp/c10fail-%d/dir", r.Seed))
		}
	}()
	walDir := filepath.Join(dir, "ns", "shard-1")
	if cs.Format == "v1" {
		// a pre-existing v1 segment makes the WAL continue in the v1 format
		_ = os.MkdirAll(walDir, 0o755)
		z := make([]byte, int(cs.SegSize)+1)
		if err := os.WriteFile(filepath.Join(walDir, fmt.Sprintf("%d%s", first, txnExt)), z, 0o644); err != nil {
			panic(err)
		}
	}
	dt := newDiskTracker(dir)
	dt.install()
	defer dt.uninstall()

	opts := &wal.FactoryOptions{BaseWalDir: dir, Retention: time.Hour, SegmentSize: cs.SegSize, SyncData: true}
	cp := &commitProvider{}
	cp.v.Store(-1)
	w, err := wal.SimNewWal("ns", 1, opts, cp, fakeClock{}, 10*time.Minute)
	if err != nil {
		r.Fail("open-error", "initial open failed: %v", err)
		return
	}
	var entries []*proto.LogEntry
	synced := 0
	for i := 0; i < n && !r.Failed(); i++ {
		gi := NewRng(r.Seed, "c10e", i)
		vl := gi.Range(1, maxVal)
		if gi.Chance(15) {
			vl = maxVal
		}
		e := &proto.LogEntry{Term: int64(1 + i/7), Offset: first + int64(len(entries)), Value: gi.Bytes(vl), Timestamp: uint64(time.Now().UnixMilli())}
		if cs.Format == "v1" && i == 0 && first != 0 {
			// v1 pre-created segment has base `first`; nothing else to do
		}
		if err := w.AppendAsync(e); err != nil {
			r.Fail("append-rejected", "AppendAsync(%d): %v", e.Offset, err)
			break
		}
		entries = append(entries, e)
		r.Logf("append %d len=%d", e.Offset, len(e.Value))
		if gi.Chance(40) {
			if err := w.Sync(context.Background()); err != nil {
				r.Fail("sync-error", "%v", err)
				break
			}
			synced = len(entries)
			r.Logf("sync")
		}
		if gi.Chance(25) {
			time.Sleep(time.Duration(gi.Range(1, 90)) * time.Second)
		}
		if gi.Chance(10) && len(entries) > 1 {
			// truncate the log somewhere and keep appending (what a follower does on a leader change)
			keep := gi.Range(1, len(entries)-1)
			x := first + int64(keep) - 1
			if _, err := w.TruncateLog(x); err != nil {
				r.Fail("truncate-error", "TruncateLog(%d): %v", x, err)
				break
			}
			entries = entries[:keep]
			synced = keep
			r.Logf("truncate to %d", x)
			r.Count("prog_truncations", 1)
		}
		if gi.Chance(6) {
			// graceful reopen in the middle
			if err := w.Close(); err != nil {
				r.Fail("close-error", "%v", err)
				break
			}
			if w, err = wal.SimNewWal("ns", 1, opts, cp, fakeClock{}, 10*time.Minute); err != nil {
				r.Fail("open-error", "graceful reopen failed: %v", err)
				return
			}
			r.Logf("graceful reopen")
			// a graceful close followed by reopen does not make anything durable by itself
		}
	}
	if r.Failed() {
		_ = w.Close()
		return
	}
	cs.Appended, cs.Synced = len(entries), synced
	commit := int64(-1)
	if synced > 0 {
		commit = first - 1 + int64(g.Intn(synced+1))
	}
	cs.Commit = commit
	cp.v.Store(commit)

	// locate records in the files as they are now (before closing)
	mode := g.Intn(100)
	graceful := false
	switch {
	case mode < 45:
		cs.Mode = "power-loss"
	case mode < 60:
		cs.Mode = "power-loss+mutation"
	default:
		cs.Mode = "graceful+mutation"
		graceful = true
	}
	var st imageStats
	if graceful {
		if err := w.Close(); err != nil {
			r.Fail("close-error", "%v", err)
			return
		}
		w = nil
		if err := copyTree(dir, img); err != nil {
			panic(err)
		}
		synced = len(entries) // everything reached the files; corruption is the only damage
	} else {
		pageSize := []int{64, 512, 4096}[g.Intn(3)]
		if err := dt.PowerLossImage(dir, img, r.Seed, pageSize, &st); err != nil {
			panic(err)
		}
		r.Count("pl_dirty_pages", int64(st.DirtyPages))
		r.Count("pl_pages_lost", int64(st.PagesLost))
		r.Count("pl_pages_kept", int64(st.PagesKept))
		r.Count("pl_torn", int64(st.Torn))
		r.Count("pl_idx_missing", int64(st.IdxMissing))
		r.Count("pl_idx_empty", int64(st.IdxEmpty))
		r.Count("pl_idx_truncated", int64(st.IdxTruncated))
		_ = w.Close() // drain the abandoned instance (writes go to the old directory only)
		w = nil
	}
	dt.uninstall()
	imgWal := filepath.Join(img, "ns", "shard-1")

	// map records of the *image* by scanning with the documented layout
	recs, lastSegFile := scanRecords(imgWal, txnExt, hdr, first)
	_ = lastSegFile

	// mutation
	mustOpen := true       // B2 / power-loss: reopen has to succeed
	damaged := map[int64]bool{} // entries whose bytes were touched
	idxDamaged := false
	contentCheck := true
	if cs.Mode != "power-loss" {
		cs.Mutation, mustOpen = applyMutation(r, g, imgWal, txnExt, idxExt, hdr, recs, commit, damaged, &idxDamaged, cs.Format)
		for _, rc := range recs {
			if damaged[rc.entry] && rc.hdr == 4 {
				contentCheck = false // v1 has no checksums: damaged payloads cannot be detected by design
			}
		}
	}
	if st.IdxMissing+st.IdxEmpty+st.IdxTruncated > 0 {
		r.Count("nontrivial", 1)
	}
	if st.PagesLost+st.Torn > 0 || cs.Mutation != "" {
		r.Count("nontrivial", 1)
	}

	if ents, err := os.ReadDir(imgWal); err == nil {
		var names []string
		for _, e := range ents {
			fi, _ := e.Info()
			names = append(names, fmt.Sprintf("%s:%d", e.Name(), fi.Size()))
		}
		r.Logf("image %s: %v idx(missing=%d empty=%d trunc=%d)", cs.Mode, names, st.IdxMissing, st.IdxEmpty, st.IdxTruncated)
	}
	// reopen inside recover()
	opts2 := &wal.FactoryOptions{BaseWalDir: img, Retention: time.Hour, SegmentSize: cs.SegSize, SyncData: true}
	var w2 wal.Wal
	var openErr error
	panicked := recoverPanic(func() {
		w2, openErr = wal.SimNewWal("ns", 1, opts2, cp, fakeClock{}, 10*time.Minute)
	})
	if panicked != "" {
		cs.Result = "panic"
		r.Fail("recovery-panic@"+panicSite(panicked), "format=%s reopen panicked (%s, %s): %s", cs.Format, cs.Mode, cs.Mutation, firstLine(panicked))
		return
	}
	anyCommittedDamaged := false
	for o := range damaged {
		if o <= commit {
			anyCommittedDamaged = true
		}
	}
	if openErr != nil {
		cs.Result = "error"
		r.Count("reopen_error", 1)
		if mustOpen && !anyCommittedDamaged {
			r.Fail("recovery-refused", "format="+cs.Format+" reopen failed although only the uncommitted tail / unsynced state was affected (%s, %s; synced=%d commit=%d): %v",
				cs.Mode, cs.Mutation, synced, commit, openErr)
		}
		return
	}
	defer w2.Close()
	cs.Result = "ok"
	r.Count("reopen_ok", 1)

	// read back
	last := w2.LastOffset()
	gotFirst := w2.FirstOffset()
	if last >= first+int64(len(entries)) {
		r.Fail("fabricated-entry", "format=%s recovered last offset %d beyond anything appended (%d) (%s, %s)", cs.Format, last, first+int64(len(entries))-1, cs.Mode, cs.Mutation)
		return
	}
	if last >= 0 && gotFirst != first {
		r.Fail("first-offset", "recovered first offset %d, appended first %d", gotFirst, first)
		return
	}
	readErrAt := int64(-2)
	if last >= 0 {
		var rd wal.Reader
		var err error
		p := recoverPanic(func() { rd, err = w2.NewReader(first - 1) })
		if p != "" {
			r.Fail("recovery-panic@"+panicSite(p), "format=%s NewReader panicked: %s", cs.Format, firstLine(p))
			return
		}
		if err != nil {
			r.Fail("reader-error", "NewReader after recovery: %v", err)
			return
		}
		for o := first; o <= last; o++ {
			var e *proto.LogEntry
			p := recoverPanic(func() { e, err = rd.ReadNext() })
			if p != "" {
				r.Fail("recovery-panic@"+panicSite(p), "format=%s ReadNext(%d) panicked (%s, %s): %s", cs.Format, o, cs.Mode, cs.Mutation, firstLine(p))
				return
			}
			if err != nil {
				readErrAt = o
				r.Count("read_error_after_reopen", 1)
				switch {
				case cs.Mode == "power-loss":
					// diagnostic: does a second instance on the same image read it?
					diag := "?"
					if w3, err3 := wal.SimNewWal("ns", 1, opts2, cp, fakeClock{}, 10*time.Minute); err3 == nil {
						if rd3, e3 := w3.NewReader(o - 1); e3 == nil {
							if _, e4 := rd3.ReadNext(); e4 == nil {
								diag = "second-instance-reads-it"
							} else {
								diag = "second-instance-fails-too: " + e4.Error()
							}
						}
						_ = w3.Close()
					}
					r.Fail("recovered-unreadable", "format=%s entry %d within the recovered log [%d..%d] is unreadable after a power loss: %v [%s]", cs.Format, o, first, last, err, diag)
				case mustOpen && !anyCommittedDamaged && o <= commitOrSynced(commit, first, synced):
					// damage confined to the current segment's uncommitted tail or to index files
					r.Fail("committed-unreadable", "format=%s entry %d (<= commit offset %d) unreadable although the damage (%s) only touched the uncommitted tail / index files: %v", cs.Format, o, commit, cs.Mutation, err)
				}
				break
			}
			want := entries[o-first]
			if contentCheck && !pb.Equal(e, want) {
				r.Fail("wrong-data", "format="+cs.Format+" recovered entry %d differs from what was appended (%s, %s): got off=%d term=%d len=%d, want off=%d term=%d len=%d", o, cs.Mode, cs.Mutation,
					e.Offset, e.Term, len(e.Value), want.Offset, want.Term, len(want.Value))
				return
			}
		}
	}
	if r.Failed() {
		return
	}
	// completeness: synced (power loss) or committed (mutation) entries must not vanish silently
	need := first + int64(synced) - 1 // last offset that has to be there
	if cs.Mode != "power-loss" {
		need = commit
		if need > first+int64(synced)-1 {
			need = first + int64(synced) - 1
		}
	}
	if need >= first && last < need && readErrAt == -2 {
		if cs.Mode == "power-loss" {
			r.Fail("synced-entry-lost", "format="+cs.Format+" after power loss the recovered log ends at %d but entries up to %d had been synced (appended up to %d)", last, need, first+int64(len(entries))-1)
		} else {
			tag := "size-field-intact"
			for _, rc := range recs {
				if rc.entry == last+1 {
					if b, err := os.ReadFile(rc.file); err == nil && rc.off+4 <= len(b) && binary.BigEndian.Uint32(b[rc.off:]) == 0 {
						tag = "zeroed-size-field"
					}
				}
			}
			r.Fail("committed-entry-dropped", "format=%s [%s] recovered log ends at %d although entries up to commit offset %d existed; damage to committed entries must be an error, not a silent drop (%s)", cs.Format, tag, last, need, cs.Mutation)
		}
		return
	}
	if last > need {
		r.Count("unsynced_tail_survived", 1)
	}
	// second cycle: the recovered log is appended to and reopened once more.  Whatever recovery
	// discarded must stay discarded: the log must be exactly the recovered entries followed by
	// the new ones (records of the old tail still lie behind the new ones in the file).
	if readErrAt == -2 && cs.Format == "v2" && H(r.Seed, "second-cycle")%100 < 60 {
		k := int(H(r.Seed, "second-cycle-n")%3) + 1
		var added []*proto.LogEntry
		appendErr := ""
		for i := 0; i < k && appendErr == ""; i++ {
			o := last + 1 + int64(i)
			val := []byte(fmt.Sprintf("second-cycle-%d", o))
			if idx := o - first; idx >= 0 && idx < int64(len(entries)) && H(r.Seed, "second-cycle-size", i)%100 < 70 {
				// same size as the entry that used to be at this offset: the old records behind it stay aligned
				val = make([]byte, len(entries[idx].Value))
				for j := range val {
					val[j] = byte(0xA0 + i)
				}
			}
			e := &proto.LogEntry{Term: 99, Offset: o, Value: val, Timestamp: uint64(1000 + o)}
			if p := recoverPanic(func() {
				if err := w2.Append(e); err != nil {
					appendErr = err.Error()
				}
			}); p != "" {
				r.Fail("recovery-panic@"+panicSite(p), "format=%s append after recovery panicked: %s", cs.Format, firstLine(p))
				return
			}
			if appendErr == "" {
				added = append(added, e)
			}
		}
		if appendErr != "" {
			r.Count("second_cycle_append_refused", 1)
		} else {
			_ = w2.Close()
			var w3 wal.Wal
			var err3 error
			if p := recoverPanic(func() { w3, err3 = wal.SimNewWal("ns", 1, opts2, cp, fakeClock{}, 10*time.Minute) }); p != "" {
				r.Fail("recovery-panic@"+panicSite(p), "format=%s second reopen panicked: %s", cs.Format, firstLine(p))
				return
			}
			if err3 != nil {
				r.Fail("second-reopen-refused", "format=%s after recovery (%s, %s), %d appends and a clean close, the log cannot be reopened: %v", cs.Format, cs.Mode, cs.Mutation, k, err3)
				return
			}
			defer w3.Close()
			wantLast := last + int64(k)
			if got := w3.LastOffset(); got != wantLast {
				r.Fail("discarded-entry-resurrected", "format=%s recovery (%s, %s) kept entries up to %d; %d entries were appended and synced, the log was closed and reopened: it now ends at %d instead of %d (appended originally up to %d)",
					cs.Format, cs.Mode, cs.Mutation, last, k, got, wantLast, first+int64(len(entries))-1)
				return
			}
			if rd, err := w3.NewReader(last); err == nil {
				for _, want := range added {
					e, err := rd.ReadNext()
					if err != nil || !pb.Equal(e, want) {
						r.Fail("second-cycle-wrong-data", "format=%s entry %d appended after recovery reads back differently after a reopen: %v", cs.Format, want.Offset, err)
						break
					}
				}
				_ = rd.Close()
			}
			r.Count("second_cycles_checked", 1)
		}
	}
	r.Sig(fmt.Sprintf("%s/%d/%d/%d/%s/%s/%s", cs.Format, cs.SegSize, cs.Appended, cs.Synced, cs.Mode, mutKind(cs.Mutation), cs.Result))
}

func mutKind(m string) string {
	if i := strings.IndexByte(m, ' '); i > 0 {
		return m[:i]
	}
	return m
}

func firstLine(s string) string {
	if i := strings.IndexByte(s, '\n'); i > 0 {
		return s[:i]
	}
	return s
}

func recoverPanic(f func()) (msg string) {
	defer func() {
		if p := recover(); p != nil {
			msg = fmt.Sprint(p)
			if msg == "" {
				msg = "panic"
			}
			// first frame inside oxia names the site (part of the violation class)
			buf := make([]byte, 16384)
			n := runtime.Stack(buf, false)
			site := "?"
			for _, ln := range strings.Split(string(buf[:n]), "\n") {
				if strings.HasPrefix(ln, "github.com/oxia-db/oxia/") {
					site = strings.TrimPrefix(ln, "github.com/oxia-db/oxia/")
					if i := strings.LastIndexByte(site, '('); i > 0 {
						site = site[:i]
					}
					break
				}
			}
			msg = site + ": " + msg
		}
	}()
	f()
	return ""
}

func panicSite(msg string) string {
	if i := strings.Index(msg, ": "); i > 0 {
		return msg[:i]
	}
	return "?"
}

// scanRecords walks segment files using the documented record layouts
// (v2 ".txnx": size|prevCrc|crc|payload ; v1 ".txn": size|payload) and returns record ranges.
// A WAL that started in v1 continues with v2 segments after its first rollover.
func scanRecords(walDir, _ string, _ int, first int64) ([]recRange, string) {
	ents, _ := os.ReadDir(walDir)
	type seg struct {
		base int64
		name string
		hdr  int
	}
	var segs []seg
	for _, e := range ents {
		var b int64
		switch {
		case strings.HasSuffix(e.Name(), ".txnx"):
			fmt.Sscanf(e.Name(), "%d", &b)
			segs = append(segs, seg{b, e.Name(), 12})
		case strings.HasSuffix(e.Name(), ".txn"):
			fmt.Sscanf(e.Name(), "%d", &b)
			segs = append(segs, seg{b, e.Name(), 4})
		}
	}
	sort.Slice(segs, func(i, j int) bool { return segs[i].base < segs[j].base })
	var recs []recRange
	lastFile := ""
	for bi, sg := range segs {
		fn := filepath.Join(walDir, sg.name)
		lastFile = fn
		buf, err := os.ReadFile(fn)
		if err != nil {
			continue
		}
		off := 0
		eo := sg.base
		for off+sg.hdr <= len(buf) {
			sz := int(binary.BigEndian.Uint32(buf[off:]))
			if sz == 0 || off+sg.hdr+sz > len(buf) {
				break
			}
			recs = append(recs, recRange{file: fn, off: off, end: off + sg.hdr + sz, entry: eo, lastSeg: bi == len(segs)-1, hdr: sg.hdr})
			off += sg.hdr + sz
			eo++
		}
	}
	return recs, lastFile
}

// applyMutation damages the image.  It returns a description and whether the reopen is
// still required to succeed (damage confined to the current segment's uncommitted tail,
// or to index files, which are redundant).
func applyMutation(r *Run, g *Rng, walDir, _, _ string, _ int, recs []recRange, commit int64,
	damaged map[int64]bool, idxDamaged *bool, format string) (string, bool) {
	ents, _ := os.ReadDir(walDir)
	var txns, idxs []string
	for _, e := range ents {
		switch {
		case strings.HasSuffix(e.Name(), ".txnx") || strings.HasSuffix(e.Name(), ".txn"):
			txns = append(txns, filepath.Join(walDir, e.Name()))
		case strings.HasSuffix(e.Name(), ".idxx") || strings.HasSuffix(e.Name(), ".idx"):
			idxs = append(idxs, filepath.Join(walDir, e.Name()))
		}
	}
	sort.Strings(txns)
	sort.Strings(idxs)
	if len(txns) == 0 {
		return "none", true
	}
	lastTxn := ""
	{
		// last segment = highest base offset
		var best int64 = -1
		for _, t := range txns {
			var b int64
			fmt.Sscanf(filepath.Base(t), "%d", &b)
			if b >= best {
				best, lastTxn = b, t
			}
		}
	}
	mark := func(file string, a, b int) { // bytes [a,b) of file were touched
		for _, rc := range recs {
			if rc.file == file && a < rc.end && b > rc.off {
				damaged[rc.entry] = true
			}
		}
	}
	// start of the uncommitted tail inside the last segment
	tailStart := 0
	for _, rc := range recs {
		if rc.file == lastTxn && rc.entry <= commit && rc.end > tailStart {
			tailStart = rc.end
		}
	}
	kind := g.Intn(100)
	switch {
	case kind < 20 && len(idxs) > 0: // index file damage: redundant data, reopen must succeed
		f := idxs[g.Intn(len(idxs))]
		b, _ := os.ReadFile(f)
		*idxDamaged = true
		switch g.Intn(5) {
		case 0:
			os.Remove(f)
			r.Count("mut_idx_removed", 1)
			return "idx-removed " + filepath.Base(f), true
		case 1:
			os.WriteFile(f, nil, 0o644)
			r.Count("mut_idx_empty", 1)
			return "idx-empty " + filepath.Base(f), true
		case 2:
			k := g.Intn(len(b) + 1)
			os.WriteFile(f, b[:k], 0o644)
			r.Count("mut_idx_truncated", 1)
			return fmt.Sprintf("idx-truncated %s to %d bytes", filepath.Base(f), k), true
		default:
			if len(b) > 0 {
				i := g.Intn(len(b))
				b[i] ^= byte(1 + g.Intn(255))
				os.WriteFile(f, b, 0o644)
			}
			r.Count("mut_idx_flip", 1)
			return "idx-flip " + filepath.Base(f), true
		}
	case kind < 50 && len(recs) > 0: // header field of one record
		rc := recs[g.Intn(len(recs))]
		b, _ := os.ReadFile(rc.file)
		field := g.Intn(3)
		if rc.hdr == 4 {
			field = 0
		}
		hdr := rc.hdr
		var v uint32
		special := []uint32{0, 1, 0xFFFFFFFF, 0xFFFFFFF4, 0xFFFFFFF3, 0xFFFFFFFE, 0x80000000, 0x7FFFFFFF, uint32(len(b)), uint32(len(b) - rc.off), uint32(len(b) - rc.off - hdr), uint32(len(b)-rc.off-hdr) + 1}
		if g.Chance(70) {
			v = special[g.Intn(len(special))]
		} else {
			v = uint32(g.U64())
		}
		old := binary.BigEndian.Uint32(b[rc.off+4*field:])
		if v == old {
			v ^= 0x10
		}
		binary.BigEndian.PutUint32(b[rc.off+4*field:], v)
		os.WriteFile(rc.file, b, 0o644)
		mark(rc.file, rc.off+4*field, rc.off+4*field+4)
		r.Count("mut_header", 1)
		must := rc.file == lastTxn && rc.off >= tailStart
		return fmt.Sprintf("header field%d of entry %d := %#x (was %#x)", field, rc.entry, v, old), must
	case kind < 75: // byte flip / random bytes anywhere in a txn file
		f := txns[g.Intn(len(txns))]
		b, _ := os.ReadFile(f)
		ln := 1
		if g.Chance(40) {
			ln = g.Range(2, 40)
		}
		pos := g.Intn(len(b))
		if g.Chance(70) && len(recs) > 0 { // bias to record bytes
			var mine []recRange
			for _, rc := range recs {
				if rc.file == f {
					mine = append(mine, rc)
				}
			}
			if len(mine) > 0 {
				rc := mine[g.Intn(len(mine))]
				pos = rc.off + g.Intn(rc.end-rc.off)
			}
		}
		if pos+ln > len(b) {
			ln = len(b) - pos
		}
		changed := false
		for i := 0; i < ln; i++ {
			nb := byte(g.U64())
			if nb != b[pos+i] {
				changed = true
			}
			b[pos+i] = nb
		}
		if !changed {
			b[pos] ^= 0x01
		}
		os.WriteFile(f, b, 0o644)
		mark(f, pos, pos+ln)
		r.Count("mut_random_bytes", 1)
		return fmt.Sprintf("random-bytes %s[%d:%d]", filepath.Base(f), pos, pos+ln), f == lastTxn && pos >= tailStart
	default: // zeroed range
		f := txns[g.Intn(len(txns))]
		b, _ := os.ReadFile(f)
		pos := g.Intn(len(b))
		ln := g.Range(1, 64)
		if pos+ln > len(b) {
			ln = len(b) - pos
		}
		if bytes.Equal(b[pos:pos+ln], make([]byte, ln)) {
			// nothing changes: choose a record instead
			if len(recs) > 0 {
				rc := recs[g.Intn(len(recs))]
				f = rc.file
				b, _ = os.ReadFile(f)
				pos, ln = rc.off, g.Range(1, rc.end-rc.off)
			}
		}
		for i := 0; i < ln; i++ {
			b[pos+i] = 0
		}
		os.WriteFile(f, b, 0o644)
		mark(f, pos, pos+ln)
		r.Count("mut_zero_range", 1)
		return fmt.Sprintf("zero-range %s[%d:%d]", filepath.Base(f), pos, pos+ln), f == lastTxn && pos >= tailStart
	}
}

func init() { registry["C10"] = runC10 }

func commitOrSynced(commit, first int64, synced int) int64 {
	if l := first + int64(synced) - 1; commit > l {
		return l
	}
	return commit
}
