package oxsim

// C20: client batching and fan-out are transparent.
//
// The system under test is the client library (oxia.NewAsyncClient: shard manager, executor,
// batchers with linger timers, write streams with positional response matching, read batches
// with retries, multi-shard list / range-scan / comparison-get merging), run unchanged on the
// simulated transport against scripted shard servers written for this check.  The servers keep
// a trivially correct per-shard map, split streamed responses into seeded chunk sizes, delay
// responses, and fail chosen batches (before or after applying them, at stream open or in
// the middle of a streamed response, with retriable or final status codes).
//
// Every client operation targets its own key (or a region no writer touches), so its correct
// result is known without reasoning about interleavings:
//   - it completes exactly once;
//   - a success carries exactly the expected result (key, value, version id of that very
//     record; expected status for conditional operations); a failure is only acceptable when a
//     fault was injected on a shard the operation needed while it was in flight;
//   - list / range-scan / comparison-get over the untouched region equal the sorted reference
//     (range-scan in global key order, no loss, no duplicates).

import (
	"context"
	"runtime"
	"errors"
	"fmt"
	"io"
	"sort"
	"strings"
	"sync"
	"time"

	"google.golang.org/grpc/codes"
	"google.golang.org/grpc/metadata"
	"google.golang.org/grpc/status"

	"github.com/oxia-db/oxia/common/hash"
	"github.com/oxia-db/oxia/oxia"
	"github.com/oxia-db/oxia/proto"
)

type fakeRec struct {
	value   []byte
	version int64
	mods    int64
}

type fakeShard struct {
	id       int64
	min, max uint32
	recs     map[string]*fakeRec
	nextVer  int64
	leader   string
}

type fakeCluster struct {
	r      *Run
	mu     sync.Mutex
	shards []*fakeShard
	g      *Rng
	// fault plan
	faultPct   int
	slowPct    int
	faults     []faultEv // when and where faults were injected
	ord        map[string]int64
	chunkMax   int
	midStream  bool
	stallPct   int
	reqTimeout time.Duration
	assignSubs []chan struct{}
}

type faultEv struct {
	shard int64
	at    time.Duration
	until time.Duration // a stalled stream keeps everything queued behind it waiting until then
}

func (fc *fakeCluster) shard(id int64) *fakeShard {
	for _, s := range fc.shards {
		if s.id == id {
			return s
		}
	}
	return nil
}

func (fc *fakeCluster) shardOf(key string) *fakeShard {
	h := hash.Xxh332(key)
	for _, s := range fc.shards {
		if h >= s.min && h <= s.max {
			return s
		}
	}
	return nil
}

// decide draws a seeded decision (0..99) for a server-side choice.  It is keyed by what is
// being decided and by a fingerprint of the request being served (plus an ordinal among equal
// keys), not by a global counter: the order in which concurrent handlers get to run must not
// change what happens to each of them.
func (fc *fakeCluster) decide(fp uint64, what string) int {
	key := fmt.Sprintf("%s/%016x", what, fp)
	fc.mu.Lock()
	if fc.ord == nil {
		fc.ord = map[string]int64{}
	}
	fc.ord[key]++
	n := fc.ord[key]
	fc.mu.Unlock()
	return int(H(fc.r.Seed, "fake", key, n) % 100)
}

func fingerprint(shard int64, m interface{ MarshalVT() ([]byte, error) }) uint64 {
	b, _ := m.MarshalVT()
	return H(uint64(shard), b)
}

func (fc *fakeCluster) noteFault(shard int64) {
	fc.mu.Lock()
	fc.faults = append(fc.faults, faultEv{shard, fc.r.Now(), fc.r.Now()})
	fc.mu.Unlock()
	fc.r.Count("server_faults_injected", 1)
}

// noteStall records a fault that lasts: the server handles a stream's requests one after the other, so
// every request that arrives on it while an answer is being held back waits as well.
func (fc *fakeCluster) noteStall(shard int64, d time.Duration) {
	fc.mu.Lock()
	fc.faults = append(fc.faults, faultEv{shard, fc.r.Now(), fc.r.Now() + d})
	fc.mu.Unlock()
	fc.r.Count("server_faults_injected", 1)
}

func (s *fakeShard) sortedKeys() []string {
	ks := make([]string, 0, len(s.recs))
	for k := range s.recs {
		ks = append(ks, k)
	}
	sort.Slice(ks, func(i, j int) bool { return refCompare(ks[i], ks[j]) < 0 })
	return ks
}

func fakeVersion(r *fakeRec) *proto.Version {
	return &proto.Version{VersionId: r.version, ModificationsCount: r.mods}
}

// apply executes a write request on a shard (fc.mu held).
func (s *fakeShard) apply(req *proto.WriteRequest) *proto.WriteResponse {
	res := &proto.WriteResponse{}
	for _, p := range req.Puts {
		cur, ok := s.recs[p.Key]
		switch {
		case p.ExpectedVersionId != nil && *p.ExpectedVersionId == -1 && ok,
			p.ExpectedVersionId != nil && *p.ExpectedVersionId != -1 && (!ok || cur.version != *p.ExpectedVersionId):
			res.Puts = append(res.Puts, &proto.PutResponse{Status: proto.Status_UNEXPECTED_VERSION_ID})
			continue
		}
		s.nextVer++
		nr := &fakeRec{value: append([]byte(nil), p.Value...), version: s.nextVer}
		if ok {
			nr.mods = cur.mods + 1
		}
		s.recs[p.Key] = nr
		res.Puts = append(res.Puts, &proto.PutResponse{Status: proto.Status_OK, Version: fakeVersion(nr)})
	}
	for _, d := range req.Deletes {
		cur, ok := s.recs[d.Key]
		switch {
		case !ok:
			res.Deletes = append(res.Deletes, &proto.DeleteResponse{Status: proto.Status_KEY_NOT_FOUND})
		case d.ExpectedVersionId != nil && cur.version != *d.ExpectedVersionId:
			res.Deletes = append(res.Deletes, &proto.DeleteResponse{Status: proto.Status_UNEXPECTED_VERSION_ID})
		default:
			delete(s.recs, d.Key)
			res.Deletes = append(res.Deletes, &proto.DeleteResponse{Status: proto.Status_OK})
		}
	}
	for _, d := range req.DeleteRanges {
		for k := range s.recs {
			if refCompare(k, d.StartInclusive) >= 0 && refCompare(k, d.EndExclusive) < 0 {
				delete(s.recs, k)
			}
		}
		res.DeleteRanges = append(res.DeleteRanges, &proto.DeleteRangeResponse{Status: proto.Status_OK})
	}
	return res
}

func (s *fakeShard) get(g *proto.GetRequest) *proto.GetResponse {
	ks := s.sortedKeys()
	pick := ""
	switch g.ComparisonType {
	case proto.KeyComparisonType_EQUAL:
		if _, ok := s.recs[g.Key]; ok {
			pick = g.Key
		}
	case proto.KeyComparisonType_FLOOR, proto.KeyComparisonType_LOWER:
		for _, k := range ks {
			c := refCompare(k, g.Key)
			if c < 0 || (c == 0 && g.ComparisonType == proto.KeyComparisonType_FLOOR) {
				pick = k
			}
		}
	case proto.KeyComparisonType_CEILING, proto.KeyComparisonType_HIGHER:
		for i := len(ks) - 1; i >= 0; i-- {
			c := refCompare(ks[i], g.Key)
			if c > 0 || (c == 0 && g.ComparisonType == proto.KeyComparisonType_CEILING) {
				pick = ks[i]
			}
		}
	}
	if pick == "" {
		return &proto.GetResponse{Status: proto.Status_KEY_NOT_FOUND}
	}
	r := s.recs[pick]
	out := &proto.GetResponse{Status: proto.Status_OK, Version: fakeVersion(r)}
	if g.IncludeValue {
		out.Value = r.value
	}
	if g.ComparisonType != proto.KeyComparisonType_EQUAL {
		out.Key = &pick
	}
	return out
}

// fakeNode serves the client API for the shards it currently leads.
type fakeNode struct {
	proto.UnimplementedOxiaClientServer
	fc   *fakeCluster
	name string
}

var retriable = []codes.Code{codes.Unavailable, codes.Code(106) /* node is not leader */, codes.Code(103) /* invalid status */, codes.Code(104) /* already closed */}

func (n *fakeNode) fault(fp uint64, shard int64, what string) error {
	if n.fc.decide(fp, "fault/"+what) >= n.fc.faultPct {
		return nil
	}
	n.fc.noteFault(shard)
	if n.fc.decide(fp, "code") < 75 {
		return status.Error(retriable[n.fc.decide(fp, "which")%len(retriable)], "oxsim: injected "+what+" failure")
	}
	return status.Error(codes.Internal, "oxsim: injected final "+what+" failure")
}

func (n *fakeNode) maybeSlow(fp uint64) {
	if n.fc.decide(fp, "slow") < n.fc.slowPct {
		time.Sleep(time.Duration(n.fc.decide(fp, "slow-ms")*3+1) * time.Millisecond)
	}
}

func (n *fakeNode) assignments() *proto.ShardAssignments {
	n.fc.mu.Lock()
	defer n.fc.mu.Unlock()
	nsa := &proto.NamespaceShardsAssignment{ShardKeyRouter: proto.ShardKeyRouter_XXHASH3}
	for _, s := range n.fc.shards {
		nsa.Assignments = append(nsa.Assignments, &proto.ShardAssignment{Shard: s.id, Leader: s.leader,
			ShardBoundaries: &proto.ShardAssignment_Int32HashRange{Int32HashRange: &proto.Int32HashRange{MinHashInclusive: s.min, MaxHashInclusive: s.max}}})
	}
	return &proto.ShardAssignments{Namespaces: map[string]*proto.NamespaceShardsAssignment{"default": nsa}}
}

func (n *fakeNode) GetShardAssignments(_ *proto.ShardAssignmentsRequest, st proto.OxiaClient_GetShardAssignmentsServer) error {
	if err := st.Send(n.assignments()); err != nil {
		return err
	}
	<-st.Context().Done()
	return nil
}

func shardFromMD(ctx context.Context) int64 {
	md, _ := metadata.FromIncomingContext(ctx)
	var id int64 = -1
	if v := md.Get("shard-id"); len(v) == 1 {
		fmt.Sscan(v[0], &id)
	}
	return id
}

func (n *fakeNode) leads(id int64) *fakeShard {
	n.fc.mu.Lock()
	defer n.fc.mu.Unlock()
	s := n.fc.shard(id)
	if s == nil || nodeOfAddr(s.leader) != n.name {
		return nil
	}
	return s
}

func (n *fakeNode) WriteStream(st proto.OxiaClient_WriteStreamServer) error {
	id := shardFromMD(st.Context())
	s := n.leads(id)
	if s == nil {
		return status.Error(codes.Code(106), "node is not leader")
	}
	for {
		req, err := st.Recv()
		if err != nil {
			return nil
		}
		n.fc.r.Count("server_write_batches", 1)
		n.fc.r.Count("server_write_ops", int64(len(req.Puts)+len(req.Deletes)+len(req.DeleteRanges)))
		if len(req.Puts)+len(req.Deletes)+len(req.DeleteRanges) > 1 {
			n.fc.r.Count("server_write_batches_multi_op", 1)
		}
		fp := fingerprint(id, req)
		n.fc.r.Logf("srv write shard=%d fp=%016x ops=%d", id, fp, len(req.Puts)+len(req.Deletes)+len(req.DeleteRanges))
		if err := n.fault(fp, id, "write-before-apply"); err != nil {
			return err
		}
		n.maybeSlow(fp)
		n.fc.mu.Lock()
		res := s.apply(req)
		n.fc.mu.Unlock()
		if err := n.fault(fp, id, "write-after-apply"); err != nil {
			return err
		}
		if n.fc.stallPct > 0 && n.fc.decide(fp, "stall") < n.fc.stallPct {
			// the answer arrives after the client has given up on this request; the stream stays
			// healthy and later batches on it must still get their own answers
			d := n.fc.reqTimeout + time.Duration(n.fc.decide(fp, "stall-ms")*20+200)*time.Millisecond
			n.fc.noteStall(id, d)
			n.fc.r.Count("server_write_answers_after_client_timeout", 1)
			time.Sleep(d)
			n.fc.noteFault(id)
		}
		if err := st.Send(res); err != nil {
			return err
		}
	}
}

func (n *fakeNode) Write(ctx context.Context, req *proto.WriteRequest) (*proto.WriteResponse, error) {
	s := n.leads(req.GetShard())
	if s == nil {
		return nil, status.Error(codes.Code(106), "node is not leader")
	}
	n.fc.mu.Lock()
	defer n.fc.mu.Unlock()
	return s.apply(req), nil
}

// chunks splits n items into seeded chunk sizes.
func (n *fakeNode) chunks(fp uint64, total int) []int {
	var out []int
	for total > 0 {
		c := n.fc.decide(fp, "chunk")%n.fc.chunkMax + 1
		if c > total {
			c = total
		}
		out = append(out, c)
		total -= c
	}
	return out
}

func (n *fakeNode) Read(req *proto.ReadRequest, st proto.OxiaClient_ReadServer) error {
	id := req.GetShard()
	s := n.leads(id)
	if s == nil {
		return status.Error(codes.Code(106), "node is not leader")
	}
	n.fc.r.Count("server_read_batches", 1)
	if len(req.Gets) > 1 {
		n.fc.r.Count("server_read_batches_multi_op", 1)
	}
	fp := fingerprint(id, req)
	n.fc.r.Logf("srv read shard=%d fp=%016x gets=%d", id, fp, len(req.Gets))
	if err := n.fault(fp, id, "read-open"); err != nil {
		return err
	}
	n.maybeSlow(fp)
	n.fc.mu.Lock()
	var all []*proto.GetResponse
	for _, g := range req.Gets {
		all = append(all, s.get(g))
	}
	n.fc.mu.Unlock()
	i := 0
	for ci, c := range n.chunks(fp, len(all)) {
		if ci > 0 && n.fc.midStream {
			if err := n.fault(fp, id, "read-mid-stream"); err != nil {
				n.fc.r.Count("server_read_failed_mid_stream", 1)
				return err
			}
		}
		if err := st.Send(&proto.ReadResponse{Gets: all[i : i+c]}); err != nil {
			return err
		}
		i += c
	}
	return nil
}

func (n *fakeNode) List(req *proto.ListRequest, st proto.OxiaClient_ListServer) error {
	id := req.GetShard()
	s := n.leads(id)
	if s == nil {
		return status.Error(codes.Code(106), "node is not leader")
	}
	fp := fingerprint(id, req)
	if err := n.fault(fp, id, "list-open"); err != nil {
		return err
	}
	n.fc.mu.Lock()
	var ks []string
	for _, k := range s.sortedKeys() {
		if refCompare(k, req.StartInclusive) >= 0 && refCompare(k, req.EndExclusive) < 0 {
			ks = append(ks, k)
		}
	}
	n.fc.mu.Unlock()
	n.maybeSlow(fp)
	i := 0
	for _, c := range n.chunks(fp, len(ks)) {
		if err := st.Send(&proto.ListResponse{Keys: ks[i : i+c]}); err != nil {
			return err
		}
		i += c
		n.maybeSlow(fp)
	}
	return nil
}

func (n *fakeNode) RangeScan(req *proto.RangeScanRequest, st proto.OxiaClient_RangeScanServer) error {
	id := req.GetShard()
	s := n.leads(id)
	if s == nil {
		return status.Error(codes.Code(106), "node is not leader")
	}
	fp := fingerprint(id, req)
	if err := n.fault(fp, id, "scan-open"); err != nil {
		return err
	}
	n.fc.mu.Lock()
	var rs []*proto.GetResponse
	for _, k := range s.sortedKeys() {
		if refCompare(k, req.StartInclusive) >= 0 && refCompare(k, req.EndExclusive) < 0 {
			k := k
			r := s.recs[k]
			rs = append(rs, &proto.GetResponse{Status: proto.Status_OK, Key: &k, Value: r.value, Version: fakeVersion(r)})
		}
	}
	n.fc.mu.Unlock()
	i := 0
	for _, c := range n.chunks(fp, len(rs)) {
		n.maybeSlow(fp)
		if err := st.Send(&proto.RangeScanResponse{Records: rs[i : i+c]}); err != nil {
			return err
		}
		i += c
	}
	return nil
}

func (n *fakeNode) CreateSession(context.Context, *proto.CreateSessionRequest) (*proto.CreateSessionResponse, error) {
	return &proto.CreateSessionResponse{SessionId: 1}, nil
}
func (n *fakeNode) KeepAlive(context.Context, *proto.SessionHeartbeat) (*proto.KeepAliveResponse, error) {
	return &proto.KeepAliveResponse{}, nil
}
func (n *fakeNode) CloseSession(context.Context, *proto.CloseSessionRequest) (*proto.CloseSessionResponse, error) {
	return &proto.CloseSessionResponse{}, nil
}

// ---------------------------------------------------------------- the run

type c20Op struct {
	id      int
	kind    string
	key     string
	start   time.Duration
	shards  []int64
	check   func(res any, err error) string // "" = as expected
	results int
}

func valOf(key string) []byte { return []byte("val:" + key) }

func runC20(r *Run) {
	g := NewRng(r.Seed, "c20")
	w := NewWorld(r, defaultNetCfg(g))
	defer w.Close()
	w.NoGosched = true
	nShards := g.Range(1, 5)
	nNodes := g.Range(1, 3)
	fc := &fakeCluster{r: r, g: g, chunkMax: []int{1, 2, 3, 7, 50}[g.Intn(5)], midStream: g.Chance(60)}
	if g.Chance(65) {
		fc.faultPct = g.Range(1, 12)
	}
	fc.slowPct = g.Range(0, 40)
	span := uint64(1<<32) / uint64(nShards)
	for i := 0; i < nShards; i++ {
		s := &fakeShard{id: int64(i + 10), min: uint32(uint64(i) * span), max: uint32(uint64(i+1)*span - 1), recs: map[string]*fakeRec{}, nextVer: int64(1000 * (i + 1)),
			leader: nodePublic(fmt.Sprintf("f%d", i%nNodes+1))}
		if i == nShards-1 {
			s.max = 0xFFFFFFFF
		}
		fc.shards = append(fc.shards, s)
	}
	for i := 1; i <= nNodes; i++ {
		name := fmt.Sprintf("f%d", i)
		ep := w.Endpoint(name, nodePublic(name))
		proto.RegisterOxiaClientServer(Registrar{ep}, &fakeNode{fc: fc, name: name})
	}
	// pre-populated data: the stable region (never written by clients), records to delete,
	// records for conditional puts
	put := func(key string) *fakeRec {
		s := fc.shardOf(key)
		s.nextVer++
		rec := &fakeRec{value: valOf(key), version: s.nextVer}
		s.recs[key] = rec
		return rec
	}
	nStable := g.Range(5, 60)
	var stable []string
	for i := 0; i < nStable; i++ {
		k := fmt.Sprintf("zz/%03d", i*2)
		if g.Chance(20) {
			k = fmt.Sprintf("zz/%03d/x", i*2) // deeper keys sort after the flat ones
		}
		put(k)
		stable = append(stable, k)
	}
	sort.Slice(stable, func(i, j int) bool { return refCompare(stable[i], stable[j]) < 0 })
	linger := []time.Duration{0, time.Millisecond, 5 * time.Millisecond, 50 * time.Millisecond}[g.Intn(4)]
	maxReq := []int{1, 2, 5, 100, 1000}[g.Intn(5)]
	reqTimeout := time.Duration(g.Range(2, 10)) * time.Second
	fc.reqTimeout = reqTimeout
	if g.Chance(35) {
		fc.stallPct = g.Range(1, 4)
	}
	nClients := g.Range(1, 4)
	opsPer := g.Range(10, 60)
	if r.Tier == "thorough" {
		opsPer = g.Range(10, 200)
	}
	r.Knobs["shards"], r.Knobs["nodes"], r.Knobs["linger"], r.Knobs["max_requests_per_batch"] = nShards, nNodes, linger.String(), maxReq
	r.Knobs["fault_pct"], r.Knobs["chunk_max"], r.Knobs["request_timeout"] = fc.faultPct, fc.chunkMax, reqTimeout.String()
	r.Knobs["stall_pct"] = fc.stallPct
	r.Knobs["plan_size"] = nClients * opsPer
	allShards := func() []int64 {
		var ids []int64
		for _, s := range fc.shards {
			ids = append(ids, s.id)
		}
		return ids
	}
	faultDuring := func(op *c20Op, end time.Duration) bool {
		fc.mu.Lock()
		defer fc.mu.Unlock()
		for _, f := range fc.faults {
			if f.until >= op.start-reqTimeout && f.at <= end {
				for _, s := range op.shards {
					if s == f.shard {
						return true
					}
				}
			}
		}
		return false
	}
	var failMu sync.Mutex
	report := func(op *c20Op, class, msg string) {
		failMu.Lock()
		defer failMu.Unlock()
		r.Fail(class, "operation #%d %s %q (shards %v, linger %v, max %d requests per batch, server chunks <= %d): %s", op.id, op.kind, op.key, op.shards, linger, maxReq, fc.chunkMax, msg)
	}
	ctl := w.Endpoint("ctl")
	ok := w.RunScript(ctl, 2*time.Hour, func() {
		var wg sync.WaitGroup
		for ci := 0; ci < nClients; ci++ {
			ci := ci
			wg.Add(1)
			ep := w.Endpoint(fmt.Sprintf("client%d", ci))
			ep.Go(func() {
				defer wg.Done()
				cl, err := oxia.NewAsyncClient(nodePublic("f1"), oxia.WithBatchLinger(linger), oxia.WithMaxRequestsPerBatch(maxReq), oxia.WithRequestTimeout(reqTimeout))
				if err != nil {
					r.Fail("client-start-error", "NewAsyncClient: %v", err)
					return
				}
				defer cl.Close()
				// per-client private records, created directly on the servers
				fc.mu.Lock()
				var toDelete, condKeys []string
				condVer := map[string]int64{}
				for i := 0; i < opsPer; i++ {
					k := fmt.Sprintf("d/%d/%d", ci, i)
					put(k)
					toDelete = append(toDelete, k)
					k2 := fmt.Sprintf("u/%d/%d", ci, i)
					condVer[k2] = put(k2).version
					condKeys = append(condKeys, k2)
					for j := 0; j < 3; j++ {
						put(fmt.Sprintf("r/%d/%d/%d", ci, i, j))
					}
				}
				fc.mu.Unlock()
				var pending sync.WaitGroup
				for i := 0; i < opsPer && !r.Failed(); i++ {
					if !r.KeepItem(ci*1000 + i) {
						continue
					}
					og := NewRng(r.Seed, "c20op", ci, i)
					op := &c20Op{id: ci*1000 + i, start: r.Now()}
					finish := func(res any, err error) {
						end := r.Now()
						op.results++
						if op.results > 1 {
							report(op, "operation-completed-twice", "a second result was delivered")
							return
						}
						if err != nil && !errors.Is(err, oxia.ErrKeyNotFound) && !errors.Is(err, oxia.ErrUnexpectedVersionId) {
							if faultDuring(op, end) {
								r.Count("ops_failed_under_fault", 1)
								return
							}
							report(op, "operation-failed-without-fault", fmt.Sprintf("failed with %v although no fault was injected on its shards while it was in flight", err))
							return
						}
						if msg := op.check(res, err); msg != "" {
							report(op, "wrong-result", msg)
							return
						}
						r.Count("ops_checked", 1)
					}
					oneShard := func(key string) { op.key = key; op.shards = []int64{fc.shardOf(key).id} }
					switch k := og.Intn(100); {
					case k < 3: // a burst of large puts to one shard: the batch is split by its size limit, not by count
						first := fmt.Sprintf("big/%d/%d/0", ci, i)
						target := fc.shardOf(first).id
						nb := og.Range(3, 5)
						op.kind = "big-put-burst"
						op.key = first
						op.shards = []int64{target}
						op.check = func(any, error) string { return "" }
						var chans []<-chan oxia.PutResult
						var keys []string
						for j, tries := 0, 0; len(keys) < nb && tries < 400; tries++ {
							key := fmt.Sprintf("big/%d/%d/%d", ci, i, j)
							j++
							if fc.shardOf(key).id != target {
								continue
							}
							val := append(valOf(key), og.Bytes(og.Range(36000, 70000))...)
							keys = append(keys, key)
							chans = append(chans, cl.Put(key, val))
						}
						r.Count("big_put_bursts", 1)
						pending.Add(1)
						ep.Go(func() {
							defer pending.Done()
							var firstErr error
							for x, ch := range chans {
								res := <-ch
								if res.Err != nil {
									if firstErr == nil {
										firstErr = res.Err
									}
									continue
								}
								fc.mu.Lock()
								rec := fc.shardOf(keys[x]).recs[keys[x]]
								fc.mu.Unlock()
								if res.Key != keys[x] || rec == nil || rec.version != res.Version.VersionId {
									report(op, "wrong-result", fmt.Sprintf("put %q acknowledged with key %q version %d; the server holds %v", keys[x], res.Key, res.Version.VersionId, rec))
								}
							}
							finish(nil, firstErr)
						})
					case k < 22: // put of a fresh key
						key := fmt.Sprintf("p/%d/%d", ci, i)
						val := valOf(key)
						if og.Chance(10) {
							val = append(val, og.Bytes(og.Range(1000, 40000))...)
						}
						op.kind = "put"
						oneShard(key)
						op.check = func(any, error) string { return "" }
						ch := cl.Put(key, val)
						pending.Add(1)
						ep.Go(func() {
							defer pending.Done()
							res := <-ch
							finish(res, res.Err)
							if res.Err != nil {
								return
							}
							fc.mu.Lock()
							rec := fc.shardOf(key).recs[key]
							fc.mu.Unlock()
							if res.Key != key || rec == nil || rec.version != res.Version.VersionId {
								report(op, "wrong-result", fmt.Sprintf("put acknowledged with key %q version %d; the server holds %v", res.Key, res.Version.VersionId, rec))
							}
							if extra, more := <-ch; more {
								report(op, "operation-completed-twice", fmt.Sprintf("a second put result arrived: %+v", extra))
							}
						})
					case k < 30: // conditional put that must be refused
						key := stable[og.Intn(len(stable))]
						op.kind = "put-if-absent-on-existing"
						oneShard(key)
						op.check = func(_ any, err error) string {
							if !errors.Is(err, oxia.ErrUnexpectedVersionId) {
								return fmt.Sprintf("expected ErrUnexpectedVersionId, got %v", err)
							}
							return ""
						}
						ch := cl.Put(key, []byte("never"), oxia.ExpectedRecordNotExists())
						pending.Add(1)
						ep.Go(func() { defer pending.Done(); res := <-ch; finish(res, res.Err) })
					case k < 38: // conditional put with the right version
						key := condKeys[i]
						op.kind = "put-expected-version"
						oneShard(key)
						ch := cl.Put(key, valOf(key), oxia.ExpectedVersionId(condVer[key]))
						op.check = func(res any, err error) string {
							if err != nil {
								return fmt.Sprintf("expected success, got %v", err)
							}
							if pr := res.(oxia.PutResult); pr.Version.ModificationsCount != 1 {
								return fmt.Sprintf("modifications count %d, expected 1", pr.Version.ModificationsCount)
							}
							return ""
						}
						pending.Add(1)
						ep.Go(func() { defer pending.Done(); res := <-ch; finish(res, res.Err) })
					case k < 58: // get of a stable record
						key := stable[og.Intn(len(stable))]
						op.kind = "get"
						oneShard(key)
						fc.mu.Lock()
						wantVer := fc.shardOf(key).recs[key].version
						fc.mu.Unlock()
						ch := cl.Get(key)
						op.check = func(res any, err error) string {
							gr := res.(oxia.GetResult)
							if err != nil || string(gr.Value) != string(valOf(key)) || gr.Version.VersionId != wantVer {
								return fmt.Sprintf("got err=%v value %q version %d, expected value %q version %d", err, short(string(gr.Value)), gr.Version.VersionId, valOf(key), wantVer)
							}
							return ""
						}
						pending.Add(1)
						ep.Go(func() { defer pending.Done(); res := <-ch; finish(res, res.Err) })
					case k < 64: // get of a key nobody writes
						key := fmt.Sprintf("missing/%d/%d", ci, i)
						op.kind = "get-missing"
						oneShard(key)
						ch := cl.Get(key)
						op.check = func(_ any, err error) string {
							if !errors.Is(err, oxia.ErrKeyNotFound) {
								return fmt.Sprintf("expected ErrKeyNotFound, got %v", err)
							}
							return ""
						}
						pending.Add(1)
						ep.Go(func() { defer pending.Done(); res := <-ch; finish(res, res.Err) })
					case k < 72: // delete of an existing private record / of a missing one
						key := toDelete[i]
						missing := og.Chance(30)
						if missing {
							key = fmt.Sprintf("missing/%d/%d", ci, i)
						}
						op.kind = "delete"
						oneShard(key)
						ch := cl.Delete(key)
						op.check = func(_ any, err error) string {
							if missing && !errors.Is(err, oxia.ErrKeyNotFound) {
								return fmt.Sprintf("expected ErrKeyNotFound, got %v", err)
							}
							if !missing && err != nil {
								return fmt.Sprintf("expected success, got %v", err)
							}
							return ""
						}
						pending.Add(1)
						ep.Go(func() { defer pending.Done(); err := <-ch; finish(nil, err) })
					case k < 77: // delete-range over a private prefix (fans out to every shard)
						op.kind = "delete-range"
						op.key = fmt.Sprintf("r/%d/%d/", ci, i)
						op.shards = allShards()
						ch := cl.DeleteRange(op.key, op.key+"~")
						prefix := op.key
						op.check = func(_ any, err error) string {
							if err != nil {
								return fmt.Sprintf("expected success, got %v", err)
							}
							fc.mu.Lock()
							defer fc.mu.Unlock()
							for _, s := range fc.shards {
								for key := range s.recs {
									if strings.HasPrefix(key, prefix) {
										return fmt.Sprintf("record %q is still on shard %d after the range delete was acknowledged", key, s.id)
									}
								}
							}
							return ""
						}
						pending.Add(1)
						ep.Go(func() { defer pending.Done(); err := <-ch; finish(nil, err) })
					case k < 85: // comparison get inside the stable region
						j := og.Range(1, len(stable)-2)
						if len(stable) < 4 {
							continue
						}
						ct := og.Intn(4)
						probe := stable[j]
						want := ""
						opt := oxia.ComparisonFloor()
						switch ct {
						case 0:
							want = stable[j]
						case 1:
							opt, want = oxia.ComparisonCeiling(), stable[j]
						case 2:
							opt, want = oxia.ComparisonLower(), stable[j-1]
						case 3:
							opt, want = oxia.ComparisonHigher(), stable[j+1]
						}
						op.kind = fmt.Sprintf("get-%s", []string{"floor", "ceiling", "lower", "higher"}[ct])
						op.key = probe
						op.shards = allShards()
						ch := cl.Get(probe, opt)
						op.check = func(res any, err error) string {
							gr := res.(oxia.GetResult)
							if err != nil || gr.Key != want || string(gr.Value) != string(valOf(want)) {
								return fmt.Sprintf("got err=%v key %q value %q, expected key %q", err, gr.Key, short(string(gr.Value)), want)
							}
							return ""
						}
						pending.Add(1)
						ep.Go(func() { defer pending.Done(); res := <-ch; finish(res, res.Err) })
					case k < 92: // list over part of the stable region
						a, b := og.Intn(len(stable)), og.Intn(len(stable))
						if a > b {
							a, b = b, a
						}
						op.kind = "list"
						op.key = stable[a] + ".." + stable[b]
						op.shards = allShards()
						want := append([]string(nil), stable[a:b]...)
						ctx, cancel := context.WithTimeout(context.Background(), 20*time.Minute) // slow servers stream chunk by chunk
						ch := cl.List(ctx, stable[a], stable[b])
						pending.Add(1)
						ep.Go(func() {
							defer pending.Done()
							defer cancel()
							var got []string
							var lerr error
							for lr := range ch {
								if lr.Err != nil {
									lerr = lr.Err
								}
								got = append(got, lr.Keys...)
							}
							op.check = func(any, error) string {
								g2 := append([]string(nil), got...)
								sort.Strings(g2)
								w2 := append([]string(nil), want...)
								sort.Strings(w2)
								if strings.Join(g2, "\x00") != strings.Join(w2, "\x00") {
									return fmt.Sprintf("listed %d keys %v, expected %d keys %v", len(got), abbreviate(got), len(want), abbreviate(want))
								}
								return ""
							}
							finish(nil, lerr)
						})
					default: // range scan over part of the stable region
						a, b := og.Intn(len(stable)), og.Intn(len(stable))
						if a > b {
							a, b = b, a
						}
						op.kind = "range-scan"
						op.key = stable[a] + ".." + stable[b]
						op.shards = allShards()
						want := append([]string(nil), stable[a:b]...)
						ctx, cancel := context.WithTimeout(context.Background(), 20*time.Minute)
						ch := cl.RangeScan(ctx, stable[a], stable[b])
						pending.Add(1)
						ep.Go(func() {
							defer pending.Done()
							defer cancel()
							var got []string
							var serr error
							bad := ""
						loop:
							for {
								select {
								case gr, more := <-ch:
									if !more {
										break loop
									}
									if gr.Err != nil {
										serr = gr.Err
										continue
									}
									got = append(got, gr.Key)
									if string(gr.Value) != string(valOf(gr.Key)) {
										bad = gr.Key
									}
								case <-time.After(reqTimeout + 60*time.Second):
									serr = io.ErrNoProgress
									break loop
								}
							}
							op.check = func(any, error) string {
								if bad != "" {
									return fmt.Sprintf("record %q came with another record's value", bad)
								}
								if strings.Join(got, "\x00") != strings.Join(want, "\x00") {
									return fmt.Sprintf("scanned %v, expected (in this order) %v", abbreviate(got), abbreviate(want))
								}
								return ""
							}
							if errors.Is(serr, io.ErrNoProgress) {
								if faultDuring(op, r.Now()) {
									r.Count("scans_stalled_under_fault", 1)
									return
								}
								report(op, "operation-never-completes", "the result channel was neither closed nor fed for the request timeout plus 60 s")
								return
							}
							finish(nil, serr)
						})
					}
					r.Logf("issued #%d %s %q shards=%v path=%x", op.id, op.kind, op.key, op.shards, runtime.SimPath())
					if og.Chance(35) {
						time.Sleep(time.Duration(og.Range(0, 30)) * time.Millisecond)
					}
					if og.Chance(5) {
						pending.Wait()
					}
				}
				pending.Wait()
			})
		}
		wg.Wait()
	})
	if !ok && !r.Failed() {
		r.Fail("stuck", "client operations did not complete within 2 simulated hours")
	}
	r.Sig(fmt.Sprintf("%d/%d/%v/%d/%d/%d", nShards, nNodes, linger, maxReq, fc.faultPct, fc.chunkMax))
	if r.Stat("ops_checked") > 10 && r.Stat("server_write_batches_multi_op")+r.Stat("server_read_batches_multi_op") > 0 {
		r.Count("nontrivial", 1)
	}
}

func abbreviate(l []string) []string {
	if len(l) > 12 {
		return append(append([]string{}, l[:6]...), append([]string{"..."}, l[len(l)-5:]...)...)
	}
	return l
}

func init() { registry["C20"] = runC20 }
