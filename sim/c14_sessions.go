package oxsim

// C14: ephemeral records live and die with their session, and only they do.
//
// One real storage node (RF 1, harness as coordinator) serves several concurrent actors over
// the simulated transport: session owners (create, heartbeat, put/delete ephemeral records,
// then close, fall silent or stay alive) and other writers that put, delete and range-delete
// the same few keys, plainly or under sessions of their own.  The controller restarts the node
// (graceful, or a crash that loses the unflushed engine state so that the next leader replays
// the log) and re-elects it, which is a leader change for the session manager.
//
// Oracles:
//   - the committed log is folded into the reference model; at every entry that removes a
//     session record, the user records removed by that entry must be exactly the records the
//     session owned right before it (none surviving, none that belongs to somebody else);
//   - no record ever names a session whose record does not exist;
//   - a session does not end before a full timeout has passed since a heartbeat that was
//     acknowledged well before the end; a session whose owner fell silent ends within its
//     timeout plus a bound once the leader is stable; closed sessions end;
//   - KeepAlive on a session that exists in the committed state is not answered "not found"
//     by a leader that has finished its election;
//   - final DB dump == model (shadows, records).

import (
	"context"
	"fmt"
	"sort"
	"strings"
	"sync"
	"time"

	"google.golang.org/grpc/status"

	"github.com/oxia-db/oxia/proto"
)

type c14Session struct {
	id        int64
	timeoutMs int64
	createdAt int64
	mu        sync.Mutex
	hbs       [][2]int64 // acknowledged heartbeats: send, ack (ms)
	lastTry   int64      // last heartbeat attempt (ms)
	closeAt   int64      // CloseSession invoked (ms), 0 = never
	closeAck  int64
	silentAt  int64 // the owner stopped heartbeating on purpose (ms)
	notFound  []int64
	fate      string
}

func nowMs() int64 { return time.Now().UnixMilli() }

func runC14(r *Run) {
	wl := newW2(r, "c14", w2Opts{})
	defer wl.w.Close()
	g := wl.g
	if g.Chance(70) {
		wl.w.SitePct = g.Range(10, 60)
		wl.w.YieldPct = g.Range(5, 40)
		wl.w.YieldMax = time.Duration(g.Range(50, 5000)) * time.Microsecond
	}
	nOwners := g.Range(1, 3)
	nWriters := g.Range(1, 2)
	span := time.Duration(g.Range(8, 40)) * time.Second
	if r.Tier == "thorough" {
		span = time.Duration(g.Range(8, 120)) * time.Second
	}
	nRestarts := g.Range(0, 3)
	r.Knobs["owners"], r.Knobs["writers"], r.Knobs["span"], r.Knobs["restarts"] = nOwners, nWriters, span.String(), nRestarts
	r.Knobs["plan_size"] = nOwners + nWriters + nRestarts
	keys := []string{"e/0", "e/1", "e/2", "e/3", "f"}
	var mu sync.Mutex
	var sessions []*c14Session
	var leaderReady []int64 // times (ms) at which an election completed
	var downFrom, downTo []int64
	stop := make(chan struct{})
	stopped := func() bool {
		select {
		case <-stop:
			return true
		default:
			return false
		}
	}
	call := func(f func(ctx context.Context, cl proto.OxiaClientClient) error) error {
		ctx, cancel := context.WithTimeout(context.Background(), 5*time.Second)
		defer cancel()
		return f(ctx, wl.c.client())
	}
	write := func(req *proto.WriteRequest) {
		_ = call(func(ctx context.Context, cl proto.OxiaClientClient) error {
			req.Shard = &wl.c.shard
			_, err := cl.Write(ctx, req)
			r.Count("writes_sent", 1)
			return err
		})
	}
	// a region of > 100 records, so that range deletes over it take the engine's range-tombstone path
	bulk := g.Chance(45)
	r.Knobs["bulk_region"] = bulk
	bulkKey := func(i int) string { return fmt.Sprintf("b/%03d", i) }
	preload := func() {
		for b := 0; b < 130; b += 65 {
			req := &proto.WriteRequest{}
			for i := b; i < b+65; i++ {
				req.Puts = append(req.Puts, &proto.PutRequest{Key: bulkKey(i), Value: []byte("bulk")})
			}
			write(req)
		}
		r.Count("bulk_preloads", 1)
	}
	owner := func(idx int) {
		og := NewRng(r.Seed, "owner", idx)
		for round := 0; round < 3 && !stopped(); round++ {
			time.Sleep(time.Duration(og.Range(0, 3000)) * time.Millisecond)
			s := &c14Session{timeoutMs: int64([]int{1500, 3000, 6000}[og.Intn(3)])}
			s.createdAt = nowMs()
			err := call(func(ctx context.Context, cl proto.OxiaClientClient) error {
				res, err := cl.CreateSession(ctx, &proto.CreateSessionRequest{Shard: wl.c.shard, SessionTimeoutMs: uint32(s.timeoutMs), ClientIdentity: fmt.Sprintf("owner-%d", idx)})
				if err == nil {
					s.id = res.SessionId
				}
				return err
			})
			if err != nil {
				continue
			}
			mu.Lock()
			sessions = append(sessions, s)
			mu.Unlock()
			r.Count("sessions_created", 1)
			life := time.Duration(og.Range(1, int(span/time.Second))) * time.Second
			end := time.Now().Add(life)
			s.fate = []string{"close", "silent", "silent", "alive"}[og.Intn(4)]
			for time.Now().Before(end) && !stopped() {
				// heartbeat at about a third of the timeout
				send := nowMs()
				s.mu.Lock()
				s.lastTry = send
				s.mu.Unlock()
				err := call(func(ctx context.Context, cl proto.OxiaClientClient) error {
					_, err := cl.KeepAlive(ctx, &proto.SessionHeartbeat{Shard: wl.c.shard, SessionId: s.id})
					return err
				})
				s.mu.Lock()
				if err == nil {
					s.hbs = append(s.hbs, [2]int64{send, nowMs()})
				} else if st, ok := status.FromError(err); ok && strings.Contains(st.Message(), "session not found") {
					s.notFound = append(s.notFound, send)
				}
				s.mu.Unlock()
				r.Count("heartbeats", 1)
				if og.Chance(50) {
					k := keys[og.Intn(len(keys))]
					if bulk && og.Chance(40) {
						k = bulkKey(og.Range(90, 129))
					}
					if og.Chance(80) {
						write(&proto.WriteRequest{Puts: []*proto.PutRequest{{Key: k, Value: []byte(fmt.Sprintf("o%d", idx)), SessionId: &s.id}}})
						r.Count("ephemeral_puts", 1)
					} else {
						write(&proto.WriteRequest{Deletes: []*proto.DeleteRequest{{Key: k}}})
					}
				}
				time.Sleep(time.Duration(s.timeoutMs/3+int64(og.Range(-200, 200))) * time.Millisecond)
			}
			switch s.fate {
			case "close":
				s.mu.Lock()
				s.closeAt = nowMs()
				s.mu.Unlock()
				err := call(func(ctx context.Context, cl proto.OxiaClientClient) error {
					_, err := cl.CloseSession(ctx, &proto.CloseSessionRequest{Shard: wl.c.shard, SessionId: s.id})
					return err
				})
				if err == nil {
					s.mu.Lock()
					s.closeAck = nowMs()
					s.mu.Unlock()
				}
				r.Count("sessions_closed_by_owner", 1)
			case "silent":
				s.mu.Lock()
				s.silentAt = nowMs()
				s.mu.Unlock()
				// late writer: keep writing under the session while it is timing out
				if og.Chance(60) {
					until := time.Now().Add(time.Duration(s.timeoutMs+500) * time.Millisecond)
					for time.Now().Before(until) && !stopped() {
						write(&proto.WriteRequest{Puts: []*proto.PutRequest{{Key: keys[og.Intn(len(keys))], Value: []byte("late"), SessionId: &s.id}}})
						r.Count("late_ephemeral_puts", 1)
						time.Sleep(time.Duration(og.Range(1, 120)) * time.Millisecond)
					}
				} else {
					time.Sleep(time.Duration(s.timeoutMs+500) * time.Millisecond)
				}
			case "alive":
				for !stopped() {
					send := nowMs()
					err := call(func(ctx context.Context, cl proto.OxiaClientClient) error {
						_, err := cl.KeepAlive(ctx, &proto.SessionHeartbeat{Shard: wl.c.shard, SessionId: s.id})
						return err
					})
					s.mu.Lock()
					s.lastTry = send
					if err == nil {
						s.hbs = append(s.hbs, [2]int64{send, nowMs()})
					} else if st, ok := status.FromError(err); ok && strings.Contains(st.Message(), "session not found") {
						s.notFound = append(s.notFound, send)
					}
					s.mu.Unlock()
					time.Sleep(time.Duration(s.timeoutMs/3) * time.Millisecond)
				}
				s.mu.Lock()
				s.silentAt = nowMs()
				s.mu.Unlock()
				return
			}
		}
	}
	writer := func(idx int) {
		wg := NewRng(r.Seed, "writer", idx)
		var own *int64
		for !stopped() {
			k := keys[wg.Intn(len(keys))]
			switch x := wg.Intn(100); {
			case x < 45:
				write(&proto.WriteRequest{Puts: []*proto.PutRequest{{Key: k, Value: []byte(fmt.Sprintf("w%d", idx))}}})
			case x < 60:
				write(&proto.WriteRequest{Deletes: []*proto.DeleteRequest{{Key: k}}})
			case x < 64:
				write(&proto.WriteRequest{DeleteRanges: []*proto.DeleteRangeRequest{{StartInclusive: "e/", EndExclusive: "e/~"}}})
			case x < 68 && bulk:
				write(&proto.WriteRequest{DeleteRanges: []*proto.DeleteRangeRequest{{StartInclusive: "b/", EndExclusive: "b/~"}}})
				r.Count("bulk_range_deletes", 1)
				time.Sleep(time.Duration(wg.Range(1, 300)) * time.Millisecond)
				preload()
			case x < 68:
				write(&proto.WriteRequest{Deletes: []*proto.DeleteRequest{{Key: k}}})
			case x < 85 && own != nil:
				write(&proto.WriteRequest{Puts: []*proto.PutRequest{{Key: k, Value: []byte("ws"), SessionId: own}}})
				_ = call(func(ctx context.Context, cl proto.OxiaClientClient) error {
					_, err := cl.KeepAlive(ctx, &proto.SessionHeartbeat{Shard: wl.c.shard, SessionId: *own})
					return err
				})
			case own == nil:
				_ = call(func(ctx context.Context, cl proto.OxiaClientClient) error {
					res, err := cl.CreateSession(ctx, &proto.CreateSessionRequest{Shard: wl.c.shard, SessionTimeoutMs: 600000, ClientIdentity: fmt.Sprintf("writer-%d", idx)})
					if err == nil {
						own = &res.SessionId
					}
					return err
				})
			}
			time.Sleep(time.Duration(wg.Range(1, 700)) * time.Millisecond)
		}
	}
	ok := wl.w.RunScript(wl.c.ctl, 8*time.Hour, func() {
		if err := wl.c.elect(); err != nil {
			wl.fail("elect-error", "%v", err)
			return
		}
		leaderReady = append(leaderReady, nowMs())
		if bulk {
			preload()
		}
		var wg sync.WaitGroup
		for i := 0; i < nOwners; i++ {
			if !r.KeepItem(i) {
				continue
			}
			i := i
			wg.Add(1)
			wl.c.ctl.Go(func() { defer wg.Done(); owner(i) })
		}
		for i := 0; i < nWriters; i++ {
			if !r.KeepItem(nOwners + i) {
				continue
			}
			i := i
			wg.Add(1)
			wl.c.ctl.Go(func() { defer wg.Done(); writer(i) })
		}
		// controller: leader changes
		start := time.Now()
		for i := 0; i < nRestarts; i++ {
			if !r.KeepItem(nOwners + nWriters + i) {
				continue
			}
			rg := NewRng(r.Seed, "restart", i)
			at := time.Duration(rg.Range(1, int(span/time.Millisecond))) * time.Millisecond
			if d := at - time.Since(start); d > 0 {
				time.Sleep(d)
			}
			mu.Lock()
			downFrom = append(downFrom, nowMs())
			mu.Unlock()
			if rg.Chance(50) {
				wl.c.node.Stop()
				if wl.c.node.CloseStuck {
					break
				}
				wl.c.node = wl.w.StartNode("n1", wl.nodeDir, nil)
				wl.prog = append(wl.prog, "restart")
			} else {
				newDir := fmt.Sprintf("%s-c%d", wl.nodeDir, i)
				wl.c.node.Crash(newDir, rg.Chance(50), 4096)
				wl.nodeDir = newDir
				wl.c.node = wl.w.StartNode("n1", newDir, nil)
				wl.prog = append(wl.prog, "crash-restart")
				r.Count("crash_restarts", 1)
			}
			if wl.c.node.startErr != nil {
				wl.fail("restart-error", "%v", wl.c.node.startErr)
				break
			}
			time.Sleep(time.Duration(rg.Range(0, 2000)) * time.Millisecond) // shard without a leader for a while
			if err := wl.c.elect(); err != nil {
				wl.fail("elect-error", "election after restart failed: %v", err)
				break
			}
			mu.Lock()
			leaderReady = append(leaderReady, nowMs())
			downTo = append(downTo, nowMs())
			mu.Unlock()
			r.Count("leader_changes", 1)
		}
		if d := span - time.Since(start); d > 0 {
			time.Sleep(d)
		}
		close(stop)
		wg.Wait()
		stopAt := nowMs()
		// every session's owner is silent now; the longest timeout is 6 s (writers' own sessions: 600 s)
		time.Sleep(20 * time.Second)
		if r.Failed() {
			return
		}
		c14Audit(wl, sessions, leaderReady, downFrom, downTo, stopAt)
		if !r.Failed() {
			wl.checkDump("final")
		}
	})
	if !ok && !r.Failed() {
		r.Fail("stuck", "script did not finish")
	}
	wl.c.node.Stop()
	r.Sig(fmt.Sprintf("%d/%d/%v/%s", nOwners, nWriters, span, strings.Join(wl.prog, ";")))
	if r.Stat("session_ends_audited") > 0 && r.Stat("ephemeral_puts") > 2 {
		r.Count("nontrivial", 1)
	}
}

// c14Audit folds the node's log into the model entry by entry and evaluates the session oracles.
func c14Audit(wl *w2Workload, sessions []*c14Session, leaderReady, downFrom, downTo []int64, stopAt int64) {
	r := wl.r
	v := wl.c.view()
	if v == nil {
		wl.fail("no-view", "shard not hosted at the end")
		return
	}
	ents, err := readLog(v.Wal, -1)
	if err != nil {
		wl.fail("log-error", "%v", err)
		return
	}
	byID := map[int64]*c14Session{}
	for _, s := range sessions {
		byID[s.id] = s
	}
	m := wl.c.model
	endedAt := map[int64]int64{}
	ownerOf := map[string]int64{}         // key -> owning session, per the model, before the entry
	lostAt := map[int64]map[string]int64{} // session -> key -> entry timestamp at which it stopped owning the key
	gainedAt := map[string]int64{}        // key -> entry timestamp at which its current owner (ownerOf) acquired it
	for _, e := range ents {
		if e.Offset > committedUpTo(v) {
			break
		}
		ws, err := decodeEntry(e)
		if err != nil {
			wl.fail("log-error", "%v", err)
			return
		}
		for _, wr := range ws {
			m.Apply(wr, e.Offset, e.Timestamp)
			info := m.LastApplied
			for _, sid := range info.ClosedSessions {
				endedAt[sid] = int64(e.Timestamp)
				r.Count("session_ends_audited", 1)
				owned := map[string]bool{}
				for _, k := range info.OwnedBefore[sid] {
					owned[k] = true
				}
				named := map[string]bool{}
				for _, d := range wr.Deletes {
					named[d.Key] = true
				}
				for _, k := range info.DeletedKeys {
					if named[k] && !owned[k] && !strings.HasPrefix(k, internalPrefix) {
						// the clean-up lists the owned keys a moment before its entry is applied: a key lost
						// within that moment is the recorded list-then-delete race; a key lost long before
						// means the session's index of owned keys was stale
						lost, ever := lostAt[sid][k]
						ago := int64(e.Timestamp) - lost
						if ever && ago <= 1500 {
							wl.fail("session-end-removes-foreign-record", "log entry %d ends session %d and removes record %q, which that session did not own when the entry was applied (it had been overwritten or re-created by somebody else in the meantime, %d ms before); owned at that moment: %v",
								e.Offset, sid, k, ago, info.OwnedBefore[sid])
						} else {
							wl.fail("session-end-removes-record-lost-long-before", "log entry %d ends session %d and removes record %q, which that session had not owned for %d ms (ever owned: %v): the session's index of owned keys was stale; owned at that moment: %v",
								e.Offset, sid, k, ago, ever, info.OwnedBefore[sid])
						}
						return
					}
				}
				for k := range owned {
					if !named[k] {
						// the clean-up lists the owned keys a moment before its entry is applied: a record written
						// under the session within that moment is the recorded list-then-delete race; a record
						// held for longer was missing from the session's index of owned keys
						held := int64(e.Timestamp) - gainedAt[k]
						if held <= 300 {
							wl.fail("owned-record-survives-session-end", "log entry %d ends session %d but leaves its record %q in place (written under the session after the owned-key list was taken, %d ms before); the entry deletes %v",
								e.Offset, sid, k, held, keysOfDeletes(wr))
						} else {
							wl.fail("owned-record-missing-from-session-index", "log entry %d ends session %d but leaves its record %q in place, which the session had owned for %d ms: it was not in the session's index of owned keys; the entry deletes %v",
								e.Offset, sid, k, held, keysOfDeletes(wr))
						}
						return
					}
				}
			}
			// ownership changes made by this entry
			for k, prev := range ownerOf {
				rec, ok := m.Recs[k]
				if !ok || rec.Session == nil || *rec.Session != prev {
					if lostAt[prev] == nil {
						lostAt[prev] = map[string]int64{}
					}
					lostAt[prev][k] = int64(e.Timestamp)
					delete(ownerOf, k)
				}
			}
			for k, rec := range m.Recs {
				if rec.Session != nil && !strings.HasPrefix(k, internalPrefix) {
					if cur, had := ownerOf[k]; !had || cur != *rec.Session {
						gainedAt[k] = int64(e.Timestamp)
					}
					ownerOf[k] = *rec.Session
				}
			}
			// no record may name a session that does not exist
			for k, rec := range m.Recs {
				if rec.Session != nil {
					if _, alive := m.Recs[refSessionKey(*rec.Session)]; !alive {
						wl.fail("record-names-dead-session", "after log entry %d record %q is owned by session %d, which does not exist", e.Offset, k, *rec.Session)
						return
					}
				}
			}
		}
		wl.c.folded = e.Offset
	}
	// timing
	inDown := func(t int64) bool {
		for i := range downFrom {
			to := int64(1 << 62)
			if i < len(downTo) {
				to = downTo[i]
			}
			if t >= downFrom[i]-10000 && t <= to+2000 {
				return true
			}
		}
		return false
	}
	lastReady := int64(0)
	for _, t := range leaderReady {
		if t > lastReady {
			lastReady = t
		}
	}
	ids := make([]int64, 0, len(byID))
	for id := range byID {
		ids = append(ids, id)
	}
	sort.Slice(ids, func(i, j int) bool { return ids[i] < ids[j] })
	for _, id := range ids {
		s := byID[id]
		te, ended := endedAt[id]
		_, inModel := m.Recs[refSessionKey(id)]
		if ended {
			byOwner := s.closeAt != 0 && te >= s.closeAt-1
			if !byOwner {
				for _, hb := range s.hbs {
					// acknowledged well before the end: it reached the session while it was alive
					if hb[1] <= te-500 && te < hb[0]+s.timeoutMs-1 {
						wl.fail("session-expired-early", "session %d (timeout %d ms) was ended by log entry at t=%d ms although a heartbeat sent at t=%d had been acknowledged at t=%d: only %d ms without heartbeats",
							id, s.timeoutMs, te, hb[0], hb[1], te-hb[0])
						return
					}
				}
				r.Count("expiries_checked", 1)
			}
		} else if inModel {
			// still there 20 s after every owner fell silent
			quiet := s.silentAt
			if quiet == 0 || quiet > stopAt {
				quiet = stopAt
			}
			if s.closeAt != 0 && s.closeAck != 0 {
				wl.fail("closed-session-still-exists", "CloseSession(%d) was acknowledged at t=%d ms but the session record still exists at the end of the run", id, s.closeAck)
				return
			}
			if lastReady < stopAt {
				wl.fail("session-never-expires", "session %d (timeout %d ms): its owner sent the last heartbeat at t=%d ms, the leader has been in place since t=%d ms, and %d ms after the end of all activity the session and its records %v still exist (log: %d entries folded up to offset %d, commit offset %d, head %d)",
					id, s.timeoutMs, s.lastTry, lastReady, nowMs()-stopAt, m.ownedBy(id), len(ents), wl.c.folded, v.CommitOffset, v.HeadOffset)
				return
			}
		}
		// KeepAlive answered "session not found" while the session existed in the committed state
		for _, t := range s.notFound {
			if inDown(t) {
				continue
			}
			if ended && t >= te-int64(2*s.timeoutMs) {
				continue // it was expiring / expired
			}
			if !ended && !inModel {
				continue // creation never committed
			}
			if s.closeAt != 0 && t >= s.closeAt {
				continue
			}
			wl.fail("live-session-unknown-to-leader", "KeepAlive(%d) sent at t=%d ms was answered 'session not found' although the session exists in the committed state (ended: %v at t=%d) and no election was in progress", id, t, ended, te)
			return
		}
	}
}

func keysOfDeletes(wr *proto.WriteRequest) []string {
	var ks []string
	for _, d := range wr.Deletes {
		ks = append(ks, d.Key)
	}
	return ks
}

func init() { registry["C14"] = runC14 }
