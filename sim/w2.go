package oxsim

// W2: one real storage node, RF=1, driven through its real RPC handlers over the simulated
// transport.  The harness plays coordinator (NewTerm / BecomeLeader) and client.

import (
	"context"
	"fmt"
	"io"
	"path/filepath"
	"time"

	"google.golang.org/grpc/metadata"
	pb "google.golang.org/protobuf/proto"

	"github.com/oxia-db/oxia/proto"
	"github.com/oxia-db/oxia/server/kv"
	"github.com/oxia-db/oxia/server/wal"
)

// RunScript runs fn on a goroutine of endpoint ep while the caller (the bubble's main
// goroutine) drives the dispatcher.  Returns false if the script did not finish before
// the horizon.
func (w *World) RunScript(ep *Endpoint, horizon time.Duration, fn func()) bool {
	done := make(chan struct{})
	ep.Go(func() {
		defer close(done)
		defer func() {
			if p := recover(); p != nil {
				if _, ok := p.(scriptAbort); ok {
					return
				}
				panic(p)
			}
		}()
		fn()
	})
	w.Net.stepUntilOr(w.R.Now()+horizon, done)
	select {
	case <-done:
		return true
	default:
		return false
	}
}

type scriptAbort struct{}

// stepUntilOr runs the dispatcher until `until` or until done is closed.
func (n *Net) stepUntilOr(until time.Duration, done <-chan struct{}) {
	n.stop.Store(false)
	go func() {
		<-done
		n.stop.Store(true)
		select {
		case n.wake <- struct{}{}:
		default:
		}
	}()
	n.RunUntil(until)
}

type shardCtl struct {
	w      *World
	r      *Run
	node   *SimNode
	ctl    *Endpoint
	shard  int64
	ns     string
	term   int64
	folded int64 // last log offset folded into the model
	model  *refDB
	notificationsEnabled bool
	onFold func(e *proto.LogEntry) // called for every committed entry folded into the model
	notifChooser func(term int64) bool // per-term choice of the EnableNotifications option (nil: always on)
	termNotif    map[int64]bool
}

func newShardCtl(w *World, node *SimNode) *shardCtl {
	return &shardCtl{w: w, r: w.R, node: node, ctl: w.Endpoint("ctl"), shard: 0, ns: "default", folded: -1, model: newRefDB(0), notificationsEnabled: true}
}

func (c *shardCtl) coord() proto.OxiaCoordinationClient {
	return proto.NewOxiaCoordinationClient(c.w.Net.Dial(c.ctl, c.node.Internal))
}
func (c *shardCtl) client() proto.OxiaClientClient {
	return proto.NewOxiaClientClient(c.w.Net.Dial(c.ctl, c.node.Public))
}

// elect makes the node leader of the shard with RF=1 in a new term.
func (c *shardCtl) elect() error {
	c.term++
	if c.notifChooser != nil {
		c.notificationsEnabled = c.notifChooser(c.term)
	}
	if c.termNotif == nil {
		c.termNotif = map[int64]bool{}
	}
	c.termNotif[c.term] = c.notificationsEnabled
	ctx, cancel := context.WithTimeout(context.Background(), 60*time.Second)
	defer cancel()
	_, err := c.coord().NewTerm(ctx, &proto.NewTermRequest{Namespace: c.ns, Shard: c.shard, Term: c.term,
		Options: &proto.NewTermOptions{EnableNotifications: c.notificationsEnabled}})
	if err != nil {
		return fmt.Errorf("NewTerm: %w", err)
	}
	_, err = c.coord().BecomeLeader(ctx, &proto.BecomeLeaderRequest{Namespace: c.ns, Shard: c.shard, Term: c.term, ReplicationFactor: 1, FollowerMaps: map[string]*proto.EntryId{}})
	if err != nil {
		return fmt.Errorf("BecomeLeader: %w", err)
	}
	return nil
}

func (c *shardCtl) write(req *proto.WriteRequest) (*proto.WriteResponse, error) {
	ctx, cancel := context.WithTimeout(context.Background(), 60*time.Second)
	defer cancel()
	req.Shard = &c.shard
	return c.client().Write(ctx, req)
}

func (c *shardCtl) read(gets ...*proto.GetRequest) ([]*proto.GetResponse, error) {
	ctx, cancel := context.WithTimeout(context.Background(), 60*time.Second)
	defer cancel()
	st, err := c.client().Read(ctx, &proto.ReadRequest{Shard: &c.shard, Gets: gets})
	if err != nil {
		return nil, err
	}
	var out []*proto.GetResponse
	for {
		rr, err := st.Recv()
		if err == io.EOF {
			return out, nil
		}
		if err != nil {
			return out, err
		}
		out = append(out, rr.Gets...)
	}
}

func (c *shardCtl) list(start, end string, index *string) ([]string, error) {
	ctx, cancel := context.WithTimeout(context.Background(), 60*time.Second)
	defer cancel()
	st, err := c.client().List(ctx, &proto.ListRequest{Shard: &c.shard, StartInclusive: start, EndExclusive: end, SecondaryIndexName: index})
	if err != nil {
		return nil, err
	}
	var out []string
	for {
		rr, err := st.Recv()
		if err == io.EOF {
			return out, nil
		}
		if err != nil {
			return out, err
		}
		out = append(out, rr.Keys...)
	}
}

func (c *shardCtl) rangeScan(start, end string, index *string) ([]*proto.GetResponse, error) {
	ctx, cancel := context.WithTimeout(context.Background(), 60*time.Second)
	defer cancel()
	st, err := c.client().RangeScan(ctx, &proto.RangeScanRequest{Shard: &c.shard, StartInclusive: start, EndExclusive: end, SecondaryIndexName: index})
	if err != nil {
		return nil, err
	}
	var out []*proto.GetResponse
	for {
		rr, err := st.Recv()
		if err == io.EOF {
			return out, nil
		}
		if err != nil {
			return out, err
		}
		out = append(out, rr.Records...)
	}
}

// view returns the white-box view of the shard (quiescent points only).
func (c *shardCtl) view() *shardView {
	if c.node.Server == nil {
		return nil
	}
	v, ok := c.node.Server.SimShardView(c.shard)
	if !ok {
		return nil
	}
	return &shardView{v.IsLeader, v.Term, int32(v.Status), v.Wal, v.DB, v.CommitOffset, v.HeadOffset}
}

// committedUpTo: the leader's quorum commit offset, or what its DB has applied if that is
// more (a leader with RF 1 that has just replayed its log has not advanced the tracker yet).
func committedUpTo(v *shardView) int64 {
	c := v.CommitOffset
	if v.DB != nil {
		if dbc, err := v.DB.ReadCommitOffset(); err == nil && dbc > c {
			c = dbc
		}
	}
	return c
}

type shardView struct {
	IsLeader     bool
	Term         int64
	Status       int32
	Wal          wal.Wal
	DB           kv.DB
	CommitOffset int64
	HeadOffset   int64
}

// readLog returns the WAL entries with offset > after.
func readLog(w wal.Wal, after int64) ([]*proto.LogEntry, error) {
	if w == nil {
		return nil, fmt.Errorf("no wal")
	}
	if first := w.FirstOffset(); after+1 < first {
		after = first - 1
	}
	rd, err := w.NewReader(after)
	if err != nil {
		return nil, err
	}
	defer rd.Close()
	var out []*proto.LogEntry
	for rd.HasNext() {
		e, err := rd.ReadNext()
		if err != nil {
			return out, err
		}
		out = append(out, e)
	}
	return out, nil
}

func decodeEntry(e *proto.LogEntry) ([]*proto.WriteRequest, error) {
	lev := &proto.LogEntryValue{}
	if err := pb.Unmarshal(e.Value, lev); err != nil {
		return nil, err
	}
	return lev.GetRequests().GetWrites(), nil
}

// foldNew folds log entries up to the DB's commit offset into the model; returns the
// model's response for the last folded write.
func (c *shardCtl) foldNew() (*proto.WriteResponse, []refPutOutcome, error) {
	v := c.view()
	if v == nil {
		return nil, nil, fmt.Errorf("no shard view")
	}
	ents, err := readLog(v.Wal, c.folded)
	if err != nil {
		return nil, nil, err
	}
	var last *proto.WriteResponse
	var lastOut []refPutOutcome
	for _, e := range ents {
		if e.Offset > committedUpTo(v) {
			break // not committed (yet)
		}
		if c.onFold != nil {
			if e.Offset != c.folded+1 {
				return nil, nil, fmt.Errorf("leader log continues at offset %d, the model is at %d", e.Offset, c.folded)
			}
			c.onFold(e)
		}
		ws, err := decodeEntry(e)
		if err != nil {
			return nil, nil, err
		}
		if en, ok := c.termNotif[e.Term]; ok {
			c.model.NotificationsEnabled = en // the option of the term the entry was written in
		}
		for _, wr := range ws {
			last, lastOut = c.model.Apply(wr, e.Offset, e.Timestamp)
		}
		c.folded = e.Offset
	}
	return last, lastOut, nil
}

// foldFrom folds the entries (folded, upTo] of the given log into the model (they are known to be committed).
func (c *shardCtl) foldFrom(w wal.Wal, upTo int64) error {
	ents, err := readLog(w, c.folded)
	if err != nil {
		return err
	}
	for _, e := range ents {
		if e.Offset > upTo {
			break
		}
		if e.Offset != c.folded+1 {
			return fmt.Errorf("log continues at offset %d, the model is at %d", e.Offset, c.folded)
		}
		if c.onFold != nil {
			c.onFold(e)
		}
		ws, err := decodeEntry(e)
		if err != nil {
			return err
		}
		if en, ok := c.termNotif[e.Term]; ok {
			c.model.NotificationsEnabled = en
		}
		for _, wr := range ws {
			c.model.Apply(wr, e.Offset, e.Timestamp)
		}
		c.folded = e.Offset
	}
	return nil
}

// dumpDB returns the full ordered content of a DB.
func dumpDB(db kv.DB) (out []dumpEntry, err error) {
	defer func() {
		if p := recover(); p != nil { // the engine panics when it has been closed underneath the reader
			out, err = nil, fmt.Errorf("engine not readable: %v", p)
		}
	}()
	k := kv.SimKVOf(db)
	if k == nil {
		return nil, fmt.Errorf("no kv")
	}
	it, err := k.RangeScan("", "")
	if err != nil {
		return nil, err
	}
	defer it.Close()
	for ; it.Valid(); it.Next() {
		v, err := it.Value()
		if err != nil {
			return out, err
		}
		out = append(out, dumpEntry{Key: it.Key(), Value: append([]byte(nil), v...)})
	}
	return out, nil
}

var _ = metadata.MD{}
var _ = filepath.Join

// compareReplicaDumps compares two replicas' full DB dumps byte-wise, excluding keys that
// are local by design (term, term options); notification batches are compared decoded
// (proto maps have no canonical encoding) and only for offsets both replicas still hold
// (they are trimmed locally by time).
func compareReplicaDumps(a, b kv.DB) string {
	da, err := dumpDB(a)
	if err != nil {
		return "dump failed: " + err.Error()
	}
	db, err := dumpDB(b)
	if err != nil {
		return "dump failed: " + err.Error()
	}
	return compareDumpLists(da, db)
}

// dumpCommitOffset extracts the applied commit offset stored in a dump (-1 if none).
func dumpCommitOffset(dump []dumpEntry) int64 {
	for _, e := range dump {
		if e.Key == internalPrefix+"commit-offset" {
			se := &proto.StorageEntry{}
			var off int64 = -1
			if se.UnmarshalVT(e.Value) == nil {
				fmt.Sscan(string(se.Value), &off)
			}
			return off
		}
	}
	return -1
}

func compareDumpLists(da, db []dumpEntry) string {
	local := func(k string) bool { return k == internalPrefix+"term" || k == internalPrefix+"term-options" }
	notif := func(k string) bool { return len(k) > len(internalPrefix)+14 && k[:len(internalPrefix)+14] == internalPrefix+"notifications/" }
	ma := map[string][]byte{}
	for _, e := range da {
		if !local(e.Key) {
			ma[e.Key] = e.Value
		}
	}
	seen := map[string]bool{}
	for _, e := range db {
		if local(e.Key) {
			continue
		}
		seen[e.Key] = true
		va, ok := ma[e.Key]
		if !ok {
			if notif(e.Key) {
				continue
			}
			return fmt.Sprintf("key %q present on one replica only", e.Key)
		}
		if notif(e.Key) {
			x, y := &proto.NotificationBatch{}, &proto.NotificationBatch{}
			if x.UnmarshalVT(va) != nil || y.UnmarshalVT(e.Value) != nil || !pb.Equal(x, y) {
				return fmt.Sprintf("notification batch %q differs between replicas", e.Key)
			}
			continue
		}
		if string(va) != string(e.Value) {
			sa, sb := &proto.StorageEntry{}, &proto.StorageEntry{}
			_ = sa.UnmarshalVT(va)
			_ = sb.UnmarshalVT(e.Value)
			return fmt.Sprintf("key %q differs between replicas: {v=%d mc=%d ct=%d mt=%d len=%d} vs {v=%d mc=%d ct=%d mt=%d len=%d}", e.Key,
				sa.VersionId, sa.ModificationsCount, sa.CreationTimestamp, sa.ModificationTimestamp, len(sa.Value),
				sb.VersionId, sb.ModificationsCount, sb.CreationTimestamp, sb.ModificationTimestamp, len(sb.Value))
		}
	}
	for k := range ma {
		if !seen[k] && !notif(k) {
			return fmt.Sprintf("key %q present on one replica only", k)
		}
	}
	return ""
}
