package oxsim

// C06: replicas are deterministic state machines over the committed log.
//
// Three real storage nodes (RF=3, one shard); the harness plays coordinator (NewTerm /
// BecomeLeader / AddFollower, following the election rule: the leader is a fenced node with the
// largest head) and client.  A generated program of write requests (sessions, sequences,
// secondary indexes, range deletes, conditional ops) is interleaved with events that make the
// replicas take different routes to the same offsets:
//
//   live application on the leader, follower replay over the replication stream, graceful
//   restarts, crash restarts (unflushed engine state lost, log replayed), leader changes with
//   several committed-but-unapplied entries on the new leader, snapshot installation on an empty
//   or wiped follower (random chunk size) followed by replay of the rest.
//
// Oracle, at checkpoints and at the end: every replica's full DB dump equals the reference
// model folded over the committed log up to that replica's own applied commit offset (records,
// versions, timestamps, session shadows, index entries, sequence keys, notification batches,
// last-version-id); replicas at the same commit offset are additionally compared byte-wise.

import (
	"context"
	"fmt"
	"os"
	"path/filepath"
	"sort"
	"strings"
	"sync"
	"time"

	"github.com/oxia-db/oxia/proto"
	"github.com/oxia-db/oxia/server"
	"github.com/oxia-db/oxia/server/kv"
	"github.com/oxia-db/oxia/server/wal"
)

type c06 struct {
	wl      *w2Workload
	r       *Run
	w       *World
	names   []string
	dirSeq  map[string]int
	started map[string]bool
	attached map[string]bool // followers attached to the current leader
	leader  string
	canon   []*proto.LogEntry // committed entries, in order, as folded into the model
	cfgMod  func(*server.Config)
}

func (c *c06) dir(n string) string {
	if n == "n1" && c.dirSeq[n] == 0 {
		return c.wl.nodeDir // started by newW2
	}
	return filepath.Join(c.w.Root, fmt.Sprintf("%s-d%d", n, c.dirSeq[n]))
}

func (c *c06) coordOf(n string) proto.OxiaCoordinationClient {
	return proto.NewOxiaCoordinationClient(c.w.Net.Dial(c.wl.c.ctl, nodeInternal(n)))
}

func (c *c06) live(n string) bool {
	sn := c.w.Node(n)
	return sn != nil && !sn.EP.Dead() && sn.Server != nil && c.started[n]
}

func better(a, b *proto.EntryId) bool {
	return a.Term > b.Term || (a.Term == b.Term && a.Offset > b.Offset)
}

// newTerm fences one node.  A follower whose last snapshot installation could not send its
// final response keeps the freshly opened DB (and its directory lock) without referencing it;
// every later NewTerm then fails with "lock held by current process" until the process is
// restarted (DESIGN.md, diagnostics).  The harness does what an operator would: restart it.
func (c *c06) newTerm(n string) (*proto.EntryId, error) {
	sc := c.wl.c
	for attempt := 0; ; attempt++ {
		ctx, cancel := context.WithTimeout(context.Background(), 60*time.Second)
		res, err := c.coordOf(n).NewTerm(ctx, &proto.NewTermRequest{Namespace: sc.ns, Shard: sc.shard, Term: sc.term,
			Options: &proto.NewTermOptions{EnableNotifications: true}})
		cancel()
		if err == nil {
			return res.HeadEntryId, nil
		}
		if attempt < 5 && strings.Contains(err.Error(), "already closed") {
			// the controller was being replaced (a Replicate stream of the leader's cursor reached the
			// freshly started node at the same moment); coordinators retry NewTerm
			c.r.Count("newterm_retries", 1)
			time.Sleep(50 * time.Millisecond)
			continue
		}
		if attempt == 0 && strings.Contains(err.Error(), "lock held by current process") {
			c.r.Count("diag_follower_wedged_after_snapshot", 1)
			old := c.w.Node(n)
			c.dirSeq[n]++
			old.Crash(c.dir(n), false, 4096)
			if !c.start(n) {
				return nil, err
			}
			continue
		}
		return nil, err
	}
}

// elect fences every live node in a new term and installs a leader with the largest head.
func (c *c06) elect(g *Rng) bool {
	sc := c.wl.c
	sc.term++
	heads := map[string]*proto.EntryId{}
	for _, n := range c.names {
		if !c.live(n) {
			continue
		}
		h, err := c.newTerm(n)
		if err != nil {
			c.wl.fail("elect-error", "NewTerm(%d) on %s failed: %v", sc.term, n, err)
			return false
		}
		heads[n] = h
	}
	var best []string
	for n, h := range heads {
		switch {
		case len(best) == 0 || better(h, heads[best[0]]):
			best = []string{n}
		case !better(heads[best[0]], h):
			best = append(best, n)
		}
	}
	sort.Strings(best)
	if len(heads) < 2 {
		c.wl.fail("harness", "election with fewer than a majority of nodes")
		return false
	}
	leader := best[g.Intn(len(best))]
	fm := map[string]*proto.EntryId{}
	c.attached = map[string]bool{}
	for n, h := range heads {
		if n != leader {
			fm[nodeInternal(n)] = h
			c.attached[n] = true
		}
	}
	ctx, cancel := context.WithTimeout(context.Background(), 120*time.Second)
	defer cancel()
	if _, err := c.coordOf(leader).BecomeLeader(ctx, &proto.BecomeLeaderRequest{Namespace: sc.ns, Shard: sc.shard, Term: sc.term, ReplicationFactor: 3, FollowerMaps: fm}); err != nil {
		c.wl.fail("become-leader-error", "BecomeLeader(term %d) on %s (head %v) failed: %v", sc.term, leader, heads[leader], err)
		return false
	}
	c.leader = leader
	sc.node = c.w.Node(leader)
	c.wl.prog = append(c.wl.prog, fmt.Sprintf("elect %s term=%d", leader, sc.term))
	c.r.Count("elections", 1)
	return true
}

// attach fences a (re)started node in the current term and adds it to the leader's followers.
func (c *c06) attach(n string) bool {
	sc := c.wl.c
	ctx, cancel := context.WithTimeout(context.Background(), 60*time.Second)
	defer cancel()
	head, err := c.newTerm(n)
	if err != nil {
		c.wl.fail("attach-error", "NewTerm(%d) on %s failed: %v", sc.term, n, err)
		return false
	}
	if _, err := c.coordOf(c.leader).AddFollower(ctx, &proto.AddFollowerRequest{Namespace: sc.ns, Shard: sc.shard, Term: sc.term,
		FollowerName: nodeInternal(n), FollowerHeadEntryId: head}); err != nil {
		c.wl.fail("attach-error", "AddFollower(%s, head %v) on leader %s failed: %v", n, head, c.leader, err)
		return false
	}
	c.attached[n] = true
	if head.Offset == wal.InvalidOffset {
		c.r.Count("empty_follower_attached", 1)
	}
	return true
}

func (c *c06) start(n string) bool {
	sn := c.w.StartNode(n, c.dir(n), c.cfgMod)
	c.started[n] = true
	if sn.startErr != nil {
		c.wl.fail("start-error", "node %s failed to start: %v", n, sn.startErr)
		return false
	}
	return true
}

// fold brings the model up to the leader's commit offset (entries are remembered via onFold).
func (c *c06) fold() bool {
	if _, _, err := c.wl.c.foldNew(); err != nil {
		c.wl.fail("log-error", "folding the log of leader %s: %v", c.leader, err)
		return false
	}
	return true
}

func (c *c06) modelAt(off int64) *refDB {
	m := newRefDB(0)
	for _, e := range c.canon {
		if e.Offset > off {
			break
		}
		ws, _ := decodeEntry(e)
		for _, wr := range ws {
			m.Apply(wr, e.Offset, e.Timestamp)
		}
	}
	return m
}

// checkpoint compares every live replica with the model at the replica's own commit offset.
func (c *c06) checkpoint(where string, settle bool) {
	if c.r.Failed() || !c.fold() {
		return
	}
	lv := c.wl.c.view()
	if settle && lv != nil {
		// bounded wait for attached followers to hold the leader's head
		for i := 0; i < 600; i++ {
			behind := false
			for n := range c.attached {
				if !c.live(n) {
					continue
				}
				v, ok := c.w.Node(n).Server.SimShardView(0)
				if !ok || v.HeadOffset < lv.HeadOffset {
					behind = true
				}
			}
			if !behind {
				break
			}
			time.Sleep(100 * time.Millisecond)
		}
	}
	type rep struct {
		name string
		off  int64
		dump []dumpEntry
	}
	var reps []rep
	for _, n := range c.names {
		if !c.live(n) {
			continue
		}
		v, ok := c.w.Node(n).Server.SimShardView(0)
		if !ok || v.DB == nil {
			continue
		}
		dump, err := dumpDB(v.DB)
		if err != nil {
			c.wl.fail("dump-error", "%s: %s: %v", where, n, err)
			return
		}
		off := dumpCommitOffset(dump) // the dump is one consistent engine snapshot
		if off > c.wl.c.folded {
			c.wl.fail("applied-beyond-commit", "%s: replica %s has applied offset %d but the leader's commit offset is %d", where, n, off, c.wl.c.folded)
			return
		}
		role := "follower"
		if v.IsLeader {
			role = "leader"
		}
		if msg := c.modelAt(off).compareDump(dump, true); msg != "" {
			c.wl.fail("replica-state-not-fold-of-log", "%s: %s %s at applied commit offset %d: %s (history: %s)", where, role, n, off, msg, lastN(c.wl.prog, 12))
			return
		}
		c.r.Count("replica_dumps_checked", 1)
		reps = append(reps, rep{n, off, dump})
	}
	for i := 0; i < len(reps); i++ {
		for j := i + 1; j < len(reps); j++ {
			if reps[i].off != reps[j].off {
				continue
			}
			if msg := compareDumpLists(reps[i].dump, reps[j].dump); msg != "" {
				c.wl.fail("replica-state-differs", "%s: %s and %s, both at commit offset %d: %s", where, reps[i].name, reps[j].name, reps[i].off, msg)
				return
			}
			c.r.Count("replica_pairs_compared", 1)
		}
	}
}

func lastN(s []string, n int) string {
	if len(s) > n {
		s = s[len(s)-n:]
	}
	return strings.Join(s, " ; ")
}

// burst sends k requests concurrently; returns once all have been answered.
func (c *c06) burst(g *Rng, k int) bool {
	var wg sync.WaitGroup
	errs := make([]error, k)
	reqs := make([]*proto.WriteRequest, k)
	c.wl.burstInReq = map[string]int{}
	defer func() { c.wl.burstInReq = nil }()
	for i := 0; i < k; i++ {
		reqs[i] = c.wl.genRequest(g)
		// sessions may have been closed by an earlier request of the burst; conditional and
		// sequence operations are resolved by the fold, not by the generator's guess
	}
	for i := 0; i < k; i++ {
		i := i
		wg.Add(1)
		c.wl.c.ctl.Go(func() {
			defer wg.Done()
			_, errs[i] = c.wl.c.write(reqs[i])
		})
	}
	wg.Wait()
	c.wl.prog = append(c.wl.prog, fmt.Sprintf("burst(%d)", k))
	for i, err := range errs {
		if err != nil {
			c.wl.fail("write-error", "burst write %s failed: %v", describeReq(reqs[i]), err)
			return false
		}
	}
	c.r.Count("burst_writes", int64(k))
	return c.fold()
}

func runC06(r *Run) {
	rg := NewRng(r.Seed, "c06-knobs")
	chunk := []int64{97, 1000, 4096, 64 * 1024, 1 << 20}[rg.Intn(5)]
	oldChunk := kv.MaxSnapshotChunkSize
	kv.MaxSnapshotChunkSize = chunk
	defer func() { kv.MaxSnapshotChunkSize = oldChunk }()
	wl := newW2(r, "c06", w2Opts{sessions: true, indexes: true, sequences: true, bigRanges: true})
	defer wl.w.Close()
	g := wl.g
	c := &c06{wl: wl, r: r, w: wl.w, names: []string{"n1", "n2", "n3"}, dirSeq: map[string]int{}, started: map[string]bool{"n1": true}, attached: map[string]bool{}}
	if g.Chance(60) {
		wl.w.SitePct = g.Range(10, 60)
		wl.w.YieldPct = g.Range(5, 40)
		wl.w.YieldMax = time.Duration(g.Range(50, 3000)) * time.Microsecond
	}
	r.Knobs["snapshot_chunk"] = chunk
	nops := g.Range(8, 40)
	if r.Tier == "thorough" {
		nops = g.Range(8, 100)
	}
	r.Knobs["plan_size"] = nops
	r.Sample = &wl.prog
	lateThird := g.Chance(60) // n3 joins later, empty: snapshot route
	ok := wl.w.RunScript(wl.c.ctl, 6*time.Hour, func() {
		wl.c.onFold = func(e *proto.LogEntry) { c.canon = append(c.canon, e) }
		if !c.start("n2") {
			return
		}
		if !lateThird && !c.start("n3") {
			return
		}
		if !c.elect(g) {
			return
		}
		for i := 0; i < nops && !r.Failed(); i++ {
			if !r.KeepItem(i) {
				continue
			}
			gi := NewRng(r.Seed, "c06op", i)
			k := gi.Intn(100)
			followers := func() []string {
				var f []string
				for _, n := range c.names {
					if n != c.leader && c.live(n) {
						f = append(f, n)
					}
				}
				return f
			}
			switch {
			case k < 6:
				if id, ok := wl.createSession(300000); ok {
					_ = id
					c.fold()
				}
			case k < 9 && len(wl.sessions) > 0:
				if id := wl.sessions[gi.Intn(len(wl.sessions))]; !wl.closed[id] {
					wl.closeSession(id)
					c.fold()
				}
			case k < 19: // pipelined writes, often followed at once by a leader change
				if !c.burst(gi, gi.Range(2, 7)) {
					return
				}
				if gi.Chance(60) {
					if !c.elect(gi) {
						return
					}
					r.Count("election_right_after_burst", 1)
				}
			case k < 27: // leader change
				if !c.elect(gi) {
					return
				}
			case k < 33: // graceful follower restart
				if f := followers(); len(f) == 2 {
					n := f[gi.Intn(2)]
					c.w.Node(n).Stop()
					delete(c.attached, n)
					wl.prog = append(wl.prog, "restart "+n)
					if !c.start(n) || !c.attach(n) {
						return
					}
					r.Count("follower_restarts", 1)
				}
			case k < 41: // follower crash: unflushed engine state is lost, the log is replayed
				if f := followers(); len(f) == 2 {
					n := f[gi.Intn(2)]
					old := c.w.Node(n)
					c.dirSeq[n]++
					old.Crash(c.dir(n), gi.Chance(50), 4096)
					delete(c.attached, n)
					wl.prog = append(wl.prog, "crash "+n)
					if !c.start(n) || !c.attach(n) {
						return
					}
					r.Count("follower_crashes", 1)
				}
			case k < 46: // leader crash + election among all three
				if len(followers()) == 2 {
					n := c.leader
					old := c.w.Node(n)
					c.dirSeq[n]++
					old.Crash(c.dir(n), gi.Chance(50), 4096)
					wl.prog = append(wl.prog, "crash-leader "+n)
					if !c.start(n) || !c.elect(gi) {
						return
					}
					r.Count("leader_crashes", 1)
				}
			case k < 52: // empty follower: late third node, or a follower whose disk was wiped
				if !c.started["n3"] {
					wl.prog = append(wl.prog, "join n3")
					if !c.start("n3") || !c.attach("n3") {
						return
					}
					r.Count("late_joins", 1)
				} else if f := followers(); len(f) == 2 {
					n := f[gi.Intn(2)]
					c.w.Node(n).Stop()
					delete(c.attached, n)
					_ = os.RemoveAll(c.dir(n))
					c.dirSeq[n]++
					wl.prog = append(wl.prog, "wipe "+n)
					// the leader still holds a cursor for this follower; a replica that lost its disk
					// re-enters through an election, which hands the leader its (empty) head
					if !c.start(n) || !c.elect(gi) {
						return
					}
					r.Count("follower_wipes", 1)
				}
			case k < 58:
				c.checkpoint(fmt.Sprintf("checkpoint after op %d", i), gi.Chance(50))
			case k < 62:
				time.Sleep(time.Duration(gi.Range(1, 3000)) * time.Millisecond)
			default:
				if !wl.doWrite(wl.genRequest(gi)) {
					return
				}
				c.fold()
			}
		}
		if r.Failed() {
			return
		}
		// one more write so that followers learn the final commit offset, then compare
		c.checkpoint("before the final write", true)
		if !r.Failed() && wl.doWrite(&proto.WriteRequest{Puts: []*proto.PutRequest{{Key: "final", Value: []byte("x")}}}) {
			wl.doWrite(&proto.WriteRequest{Puts: []*proto.PutRequest{{Key: "final2", Value: []byte("y")}}})
			time.Sleep(2 * time.Second)
			c.checkpoint("end of run", true)
		}
	})
	if !ok && !r.Failed() {
		r.Fail("stuck", "script did not finish: %s", lastOf(wl.prog))
	}
	for _, n := range c.names {
		if c.live(n) {
			c.w.Node(n).Stop()
		}
	}
	r.Sig(strings.Join(wl.prog, ";"))
	if r.Stat("replica_dumps_checked") > 3 && r.Stat("elections") > 1 {
		r.Count("nontrivial", 1)
	}
}

func init() { registry["C06"] = runC06 }
