#!/bin/bash
# usage: tools/fullsuite_seed.sh ID...  -- runs the whole existing suite with each seeded patch applied (in its scratch worktree)
export GOFLAGS=-mod=mod GOPROXY=off
for id in "$@"; do
  wt=/tmp/wt-$id; src=/tmp/seeded-out/$id
  cd $wt && git checkout -q -- . && git clean -fdq && git apply $src/patch.diff || { echo "$id: patch failed"; continue; }
  go test -vet=off -count=1 -timeout 25m ./... > /tmp/fullsuite-$id.log 2>&1; rc=$?
  fails=$(grep -c "^FAIL\|^--- FAIL" /tmp/fullsuite-$id.log)
  echo "$id full-suite rc=$rc fails=$fails" | tee -a /tmp/fullsuite-summary.txt
  git checkout -q -- . ; git clean -fdq
done
