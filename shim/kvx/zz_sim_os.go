// Overlay-only file (oxsim): the snapshot sender and loader reach the engine's files through these
// functions instead of the os package, so that they see the same (simulated, strict) file system the
// engine itself was opened on.  Without a simulated file system for the path they are the os calls.
package kv

import (
	"io"
	"io/fs"
	"os"
	"sort"
	"time"

	"github.com/cockroachdb/pebble/vfs"
)

// SimFSOf, when set, returns the simulated file system that holds path (nil: the real one).
var SimFSOf func(path string) vfs.FS

func simFSOf(path string) vfs.FS {
	if SimFSOf != nil {
		return SimFSOf(path)
	}
	return nil
}

type simFile interface {
	io.Reader
	io.Writer
	io.Seeker
	io.Closer
	Sync() error
}

// vfsFile adapts a vfs.File (no Seek) to simFile.
type vfsFile struct {
	f   vfs.File
	off int64
}

func (v *vfsFile) Read(p []byte) (int, error) {
	n, err := v.f.ReadAt(p, v.off)
	v.off += int64(n)
	return n, err
}
func (v *vfsFile) Write(p []byte) (int, error) { return v.f.Write(p) }
func (v *vfsFile) Seek(offset int64, whence int) (int64, error) {
	switch whence {
	case io.SeekStart:
		v.off = offset
	case io.SeekCurrent:
		v.off += offset
	default:
		st, err := v.f.Stat()
		if err != nil {
			return 0, err
		}
		v.off = st.Size() + offset
	}
	return v.off, nil
}
func (v *vfsFile) Close() error { return v.f.Close() }
func (v *vfsFile) Sync() error  { return v.f.Sync() }

func simOpen(path string) (simFile, error) {
	if f := simFSOf(path); f != nil {
		if st, err := f.Stat(path); err == nil && st.IsDir() {
			h, err := f.OpenDir(path)
			if err != nil {
				return nil, err
			}
			return &vfsFile{f: h}, nil
		}
		h, err := f.Open(path)
		if err != nil {
			return nil, err
		}
		return &vfsFile{f: h}, nil
	}
	return os.Open(path)
}

func simOpenFile(path string, flag int, perm os.FileMode) (simFile, error) {
	if f := simFSOf(path); f != nil {
		h, err := f.Create(path) // the loader only ever creates/truncates for writing
		if err != nil {
			return nil, err
		}
		return &vfsFile{f: h}, nil
	}
	return os.OpenFile(path, flag, perm)
}

func simStat(path string) (os.FileInfo, error) {
	if f := simFSOf(path); f != nil {
		return f.Stat(path)
	}
	return os.Stat(path)
}

type simDirEntry struct{ info os.FileInfo }

func (d simDirEntry) Name() string               { return d.info.Name() }
func (d simDirEntry) IsDir() bool                { return d.info.IsDir() }
func (d simDirEntry) Type() fs.FileMode          { return d.info.Mode().Type() }
func (d simDirEntry) Info() (fs.FileInfo, error) { return d.info, nil }

func simReadDir(path string) ([]os.DirEntry, error) {
	if f := simFSOf(path); f != nil {
		names, err := f.List(path)
		if err != nil {
			return nil, err
		}
		sort.Strings(names)
		var out []os.DirEntry
		for _, n := range names {
			st, err := f.Stat(f.PathJoin(path, n))
			if err != nil {
				continue
			}
			out = append(out, simDirEntry{st})
		}
		return out, nil
	}
	return os.ReadDir(path)
}

func simRemoveAll(path string) error {
	if f := simFSOf(path); f != nil {
		return f.RemoveAll(path)
	}
	return os.RemoveAll(path)
}

func simMkdirAll(path string, perm os.FileMode) error {
	if f := simFSOf(path); f != nil {
		return f.MkdirAll(path, perm)
	}
	return os.MkdirAll(path, perm)
}

var _ = time.Now
