package oxsim

// C06: replicas are deterministic state machines over the committed log.
//
// Three real storage nodes (RF=3, one shard); the harness plays coordinator (NewTerm /
// BecomeLeader / AddFollower, following the election rule: the leader is a fenced node with the
// largest head) and client.  A generated program of write requests (sessions, sequences,
// secondary indexes, range deletes, conditional ops) is interleaved with events that make the
// replicas take different routes to the same offsets:
//
//   live application on the leader, follower replay over the replication stream, graceful
//   restarts, crash restarts (unflushed engine state lost, log replayed), leader changes with
//   several committed-but-unapplied entries on the new leader, snapshot installation on an empty
//   or wiped follower (random chunk size) followed by replay of the rest.
//
// Oracle, at checkpoints and at the end: every replica's full DB dump equals the reference
// model folded over the committed log up to that replica's own applied commit offset (records,
// versions, timestamps, session shadows, index entries, sequence keys, notification batches,
// last-version-id); replicas at the same commit offset are additionally compared byte-wise.

import (
	"context"
	"fmt"
	"math/rand/v2"
	"runtime"
	"os"
	"path/filepath"
	"sort"
	"strings"
	"sync"
	"sync/atomic"
	"time"

	"github.com/cockroachdb/pebble"
	"github.com/cockroachdb/pebble/vfs"
	pb "google.golang.org/protobuf/proto"

	"github.com/oxia-db/oxia/proto"
	"github.com/oxia-db/oxia/server"
	"github.com/oxia-db/oxia/server/kv"
	"github.com/oxia-db/oxia/server/wal"
)

type c06 struct {
	wl      *w2Workload
	r       *Run
	w       *World
	names   []string
	dirSeq  map[string]int
	started map[string]bool
	attached map[string]bool // followers attached to the current leader
	leader  string
	canon   []*proto.LogEntry // committed entries, in order, as folded into the model
	cfgMod  func(*server.Config)

	// C07 mode
	strict  bool                  // Pebble runs on a strict in-memory FS: unsynced engine files are lost at power loss
	fsByDir map[string]*vfs.MemFS // data dir -> file system of that incarnation
	prop    string
	snapshotted map[string]bool // nodes that were (re)built from a snapshot at some point
	noStrictSnapshots bool      // (kept for the record: before the snapshot code was routed through the simulated file system)
	cutEmpty    map[string]bool // nodes whose whole log a leader has cut with Truncate(-1) and that have not been sent the snapshot yet
}

func (c *c06) dir(n string) string {
	if n == "n1" && c.dirSeq[n] == 0 {
		return c.wl.nodeDir // started by newW2
	}
	return filepath.Join(c.w.Root, fmt.Sprintf("%s-d%d", n, c.dirSeq[n]))
}

func (c *c06) coordOf(n string) proto.OxiaCoordinationClient {
	return proto.NewOxiaCoordinationClient(c.w.Net.Dial(c.wl.c.ctl, nodeInternal(n)))
}

func (c *c06) live(n string) bool {
	sn := c.w.Node(n)
	return sn != nil && !sn.EP.Dead() && sn.Server != nil && c.started[n]
}

func better(a, b *proto.EntryId) bool {
	return a.Term > b.Term || (a.Term == b.Term && a.Offset > b.Offset)
}

// newTerm fences one node.  A follower whose last snapshot installation could not send its
// final response keeps the freshly opened DB (and its directory lock) without referencing it;
// every later NewTerm then fails with "lock held by current process" until the process is
// restarted (DESIGN.md, diagnostics).  The harness does what an operator would: restart it.
func (c *c06) newTerm(n string) (*proto.EntryId, error) {
	sc := c.wl.c
	for attempt := 0; ; attempt++ {
		ctx, cancel := context.WithTimeout(context.Background(), 60*time.Second)
		res, err := c.coordOf(n).NewTerm(ctx, &proto.NewTermRequest{Namespace: sc.ns, Shard: sc.shard, Term: sc.term,
			Options: &proto.NewTermOptions{EnableNotifications: true}})
		cancel()
		if err == nil {
			return res.HeadEntryId, nil
		}
		if attempt < 5 && strings.Contains(err.Error(), "already closed") {
			// the controller was being replaced (a Replicate stream of the leader's cursor reached the
			// freshly started node at the same moment); coordinators retry NewTerm
			c.r.Count("newterm_retries", 1)
			time.Sleep(50 * time.Millisecond)
			continue
		}
		if attempt < 3 && (strings.Contains(err.Error(), "lock held by current process") || strings.Contains(err.Error(), "resource temporarily unavailable")) {
			c.r.Count("diag_follower_wedged_after_snapshot", 1)
			c.crashNode(n, false)
			if !c.start(n) {
				return nil, err
			}
			continue
		}
		return nil, err
	}
}

// elect fences every live node in a new term and installs a leader with the largest head.
func (c *c06) elect(g *Rng) bool {
	sc := c.wl.c
	sc.term++
	heads := map[string]*proto.EntryId{}
	for _, n := range c.names {
		if !c.live(n) {
			continue
		}
		h, err := c.newTerm(n)
		if err != nil {
			c.wl.fail("elect-error", "NewTerm(%d) on %s failed: %v", sc.term, n, err)
			return false
		}
		heads[n] = h
	}
	var best []string
	for n, h := range heads {
		switch {
		case len(best) == 0 || better(h, heads[best[0]]):
			best = []string{n}
		case !better(heads[best[0]], h):
			best = append(best, n)
		}
	}
	sort.Strings(best)
	if len(heads) < 2 {
		c.wl.fail("harness", "election with fewer than a majority of nodes")
		return false
	}
	leader := best[g.Intn(len(best))]
	fm := map[string]*proto.EntryId{}
	c.attached = map[string]bool{}
	for n, h := range heads {
		if n != leader {
			fm[nodeInternal(n)] = h
			c.attached[n] = true
			if h.Offset == wal.InvalidOffset && heads[leader].Offset >= 0 {
				c.snapshotted[n] = true
				c.strictNeedsSnapshot(n)
			}
		}
	}
	ctx, cancel := context.WithTimeout(context.Background(), 120*time.Second)
	defer cancel()
	if _, err := c.coordOf(leader).BecomeLeader(ctx, &proto.BecomeLeaderRequest{Namespace: sc.ns, Shard: sc.shard, Term: sc.term, ReplicationFactor: 3, FollowerMaps: fm}); err != nil {
		c.wl.fail("become-leader-error", "BecomeLeader(term %d) on %s (head %v) failed: %v", sc.term, leader, heads[leader], err)
		return false
	}
	c.leader = leader
	sc.node = c.w.Node(leader)
	c.wl.prog = append(c.wl.prog, fmt.Sprintf("elect %s term=%d", leader, sc.term))
	c.r.Count("elections", 1)
	return true
}

// strictNeedsSnapshot: in the strict-file-system mode (C07) snapshots cannot be delivered (the sender reads
// the checkpoint with the os package, the engine wrote it to the simulated file system), so a follower
// that needs one never catches up and the shard depends on the other two nodes from then on.  What the
// run reports afterwards (writes that cannot commit, elections that time out) says nothing about C07; the
// same operations run with working snapshots under C06.
func (c *c06) strictNeedsSnapshot(n string) {
	if c.strict && c.noStrictSnapshots {
		c.r.Count("strict_mode_follower_needs_snapshot", 1)
		c.r.Abandon(fmt.Sprintf("follower %s needs a snapshot, which the strict file-system mode cannot deliver (after: %s)", n, lastN(c.wl.prog, 5)))
	}
}

// attach fences a (re)started node in the current term and adds it to the leader's followers.
func (c *c06) attach(n string) bool {
	sc := c.wl.c
	ctx, cancel := context.WithTimeout(context.Background(), 60*time.Second)
	defer cancel()
	head, err := c.newTerm(n)
	if err != nil {
		c.wl.fail("attach-error", "NewTerm(%d) on %s failed: %v", sc.term, n, err)
		return false
	}
	if _, err := c.coordOf(c.leader).AddFollower(ctx, &proto.AddFollowerRequest{Namespace: sc.ns, Shard: sc.shard, Term: sc.term,
		FollowerName: nodeInternal(n), FollowerHeadEntryId: head}); err != nil {
		c.wl.fail("attach-error", "AddFollower(%s, head %v) on leader %s failed: %v", n, head, c.leader, err)
		return false
	}
	c.attached[n] = true
	if head.Offset == wal.InvalidOffset && c.wl.c.folded >= 0 {
		c.snapshotted[n] = true
		c.strictNeedsSnapshot(n)
	}
	if head.Offset == wal.InvalidOffset {
		c.r.Count("empty_follower_attached", 1)
	}
	return true
}

func (c *c06) start(n string) bool {
	sn := c.w.StartNode(n, c.dir(n), c.cfgMod)
	c.started[n] = true
	if sn.startErr != nil {
		c.wl.fail("start-error", "node %s failed to start: %v", n, sn.startErr)
		return false
	}
	return true
}

// settleAndFold waits (bounded) until everything in the leader's log is committed, then folds:
// after requests with an unknown outcome the generator must not work from a stale model.
func (c *c06) settleAndFold() bool {
	for i := 0; i < 300; i++ {
		v := c.wl.c.view()
		if v == nil {
			break
		}
		if v.HeadOffset == v.CommitOffset && v.Wal != nil && wal.SimLastAppended(v.Wal) == v.CommitOffset {
			break
		}
		time.Sleep(100 * time.Millisecond)
	}
	return c.fold()
}

// fold brings the model up to the leader's commit offset (entries are remembered via onFold).
func (c *c06) fold() bool {
	// a leader that was rebuilt from a snapshot no longer holds the entries below it: what the model has not
	// seen of them yet is read from another replica's log (everything a snapshot covers is committed)
	if lv := c.wl.c.view(); lv != nil && lv.Wal != nil && lv.Wal.FirstOffset() > c.wl.c.folded+1 {
		for _, n := range c.names {
			if n == c.leader || !c.live(n) {
				continue
			}
			v, ok := c.w.Node(n).Server.SimShardView(0)
			if !ok || v.Wal == nil || v.Wal.FirstOffset() > c.wl.c.folded+1 || v.Wal.FirstOffset() < 0 {
				continue
			}
			if err := c.wl.c.foldFrom(v.Wal, lv.Wal.FirstOffset()-1); err != nil {
				c.wl.fail("log-error", "folding the log of %s below the snapshot of leader %s: %v", n, c.leader, err)
				return false
			}
			c.r.Count("folds_below_a_snapshot_from_another_replica", 1)
			break
		}
	}
	if _, _, err := c.wl.c.foldNew(); err != nil {
		c.wl.fail("log-error", "folding the log of leader %s: %v", c.leader, err)
		return false
	}
	return true
}

func (c *c06) modelAt(off int64) *refDB {
	m := newRefDB(0)
	for _, e := range c.canon {
		if e.Offset > off {
			break
		}
		ws, _ := decodeEntry(e)
		for _, wr := range ws {
			m.Apply(wr, e.Offset, e.Timestamp)
		}
	}
	return m
}

// checkpoint compares every live replica with the model at the replica's own commit offset.
func (c *c06) checkpoint(where string, settle bool) {
	if c.r.Failed() || !c.fold() {
		return
	}
	lv := c.wl.c.view()
	if settle && lv != nil {
		// bounded wait for attached followers to hold the leader's head
		for i := 0; i < 600; i++ {
			behind := false
			for n := range c.attached {
				if !c.live(n) {
					continue
				}
				v, ok := c.w.Node(n).Server.SimShardView(0)
				if !ok || v.HeadOffset < lv.HeadOffset {
					behind = true
				}
			}
			if !behind {
				break
			}
			time.Sleep(100 * time.Millisecond)
		}
		// entries of requests that had timed out may have been committed while waiting
		if !c.fold() {
			return
		}
	}
	type rep struct {
		name string
		off  int64
		dump []dumpEntry
	}
	var reps []rep
	for _, n := range c.names {
		if !c.live(n) {
			continue
		}
		v, ok := c.w.Node(n).Server.SimShardView(0)
		if !ok || v.DB == nil {
			continue
		}
		dump, err := dumpDB(v.DB)
		if err != nil {
			c.wl.fail("dump-error", "%s: %s: %v", where, n, err)
			return
		}
		off := dumpCommitOffset(dump) // the dump is one consistent engine snapshot
		if off > c.wl.c.folded && !c.fold() {
			return
		}
		if off > c.wl.c.folded {
			lv := c.wl.c.view()
			ldesc := "no leader view"
			if lv != nil && lv.Wal != nil {
				ldesc = fmt.Sprintf("leader %s term %d status %v: quorum commit %d, head %d, log %d..%d (appended %d), folded up to %d", c.leader, lv.Term, lv.Status, lv.CommitOffset, lv.HeadOffset, lv.Wal.FirstOffset(), lv.Wal.LastOffset(), wal.SimLastAppended(lv.Wal), c.wl.c.folded)
			}
			c.wl.fail("applied-beyond-commit", "%s: replica %s (term %d, status %v) has applied offset %d but the leader's commit offset is %d (%s)", where, n, v.Term, v.Status, off, c.wl.c.folded, ldesc)
			return
		}
		role := "follower"
		if v.IsLeader {
			role = "leader"
		}
		if msg := c.modelAt(off).compareDump(dump, true); msg != "" {
			c.wl.fail("replica-state-not-fold-of-log", "%s: %s %s at applied commit offset %d: %s (history: %s)", where, role, n, off, msg, lastN(c.wl.prog, 12))
			return
		}
		c.r.Count("replica_dumps_checked", 1)
		reps = append(reps, rep{n, off, dump})
	}
	for i := 0; i < len(reps); i++ {
		for j := i + 1; j < len(reps); j++ {
			if reps[i].off != reps[j].off {
				continue
			}
			if msg := compareDumpLists(reps[i].dump, reps[j].dump); msg != "" {
				c.wl.fail("replica-state-differs", "%s: %s and %s, both at commit offset %d: %s", where, reps[i].name, reps[j].name, reps[i].off, msg)
				return
			}
			c.r.Count("replica_pairs_compared", 1)
		}
	}
}


// dbDir is the engine's data directory of the node's current incarnation.
func (c *c06) dbDir(n string) string {
	if c.strict {
		return filepath.Join(c.w.Root, n+"-db")
	}
	return filepath.Join(c.dir(n), "db")
}

// crashNode kills a node at the current quiescent point and prepares the disk image its next
// incarnation starts from (WAL image by the disk tracker; engine files: strict FS or file copy).
func (c *c06) crashNode(n string, power bool) {
	old := c.w.Node(n)
	oldDB := c.dbDir(n)
	c.dirSeq[n]++
	if c.strict {
		// the engine's data dir keeps its path across incarnations; the file system object
		// behind it is replaced by a copy of the old one's synced (power loss) or visible
		// (process kill) state, the zombie keeps the old object
		if fs := c.fsByDir[oldDB]; fs != nil {
			c.fsByDir[oldDB] = fs.SimClone(power)
			if os.Getenv("OXSIM_DEBUG_FS") != "" {
				var walk func(d string, depth int)
				walk = func(d string, depth int) {
					names, _ := c.fsByDir[oldDB].List(d)
					sort.Strings(names)
					for _, nm := range names {
						p := d + "/" + nm
						st, err := c.fsByDir[oldDB].Stat(p)
						if err != nil {
							continue
						}
						c.r.Logf("fs after crash of %s (power=%v): %s%s size=%d dir=%v", n, power, strings.Repeat("  ", depth), p[len(oldDB):], st.Size(), st.IsDir())
						if st.IsDir() && depth < 4 {
							walk(p, depth+1)
						}
					}
				}
				walk(oldDB, 0)
			}
		}
	}
	old.Crash(c.dir(n), power, []int{512, 4096}[int(H(c.r.Seed, "pg", n, c.dirSeq[n])%2)])
	delete(c.attached, n)
	if power {
		c.r.Count("crash_powerloss", 1)
	} else {
		c.r.Count("crash_kill", 1)
	}
}

// checkAfterRestart: C07's core oracle, evaluated on a freshly restarted node before any
// replay: its DB equals the fold of log entries 0..c (c = commit offset stored in the DB) and
// c does not exceed what its log holds.
func (c *c06) checkAfterRestart(n string) {
	// a node opens a shard when the coordinator first talks to it: fence it in the current
	// term (no entry is replayed by that), then look at what it recovered from disk
	if _, err := c.newTerm(n); err != nil {
		c.wl.fail("restart-error", "NewTerm(%d) on restarted node %s failed: %v", c.wl.c.term, n, err)
		return
	}
	if c.prop != "C07" {
		old := c.wl.failClassPrefix
		c.wl.failClassPrefix = "C07:"
		defer func() { c.wl.failClassPrefix = old }()
	}
	sn := c.w.Node(n)
	if sn == nil || sn.Server == nil {
		return
	}
	v, ok := sn.Server.SimShardView(0)
	for i := 0; i < 5 && (!ok || v.DB == nil || v.Wal == nil); i++ {
		// the controller is being replaced (the leader's cursor reconnected at the same moment)
		time.Sleep(50 * time.Millisecond)
		if _, err := c.newTerm(n); err != nil {
			break
		}
		v, ok = sn.Server.SimShardView(0)
	}
	if !ok || v.DB == nil || v.Wal == nil {
		c.r.Count("restart_shard_not_open", 1)
		return
	}
	dump, err := dumpDB(v.DB)
	if err != nil {
		c.wl.fail("dump-error", "after restart of %s: %v", n, err)
		return
	}
	off := dumpCommitOffset(dump)
	var last int64 = -1
	if v.Wal != nil {
		last = v.Wal.LastOffset()
	}
	if off > last && last == wal.InvalidOffset && c.snapshotted[n] && off <= c.wl.c.folded {
		// empty log: the state came from an installed snapshot (the log restarts after it); the
		// property allows that, as long as the snapshot holds committed entries only
		c.r.Count("restart_on_snapshot_state", 1)
	} else if off > last {
		why := ""
		if last == wal.InvalidOffset && c.cutEmpty[n] {
			why = "; a leader whose own log starts later had cut this follower's whole log with Truncate(-1) in order to send it a snapshot, and the node went down before the snapshot arrived"
		}
		c.wl.fail("commit-offset-ahead-of-log", "after crash and restart, %s's DB stores commit offset %d but its log ends at offset %d (first %d; wal files: %s)%s", n, off, last, v.Wal.FirstOffset(), listFiles(filepath.Join(sn.Dir, "wal")), why)
		return
	}
	// the entries: the committed log known to the harness, continued by the node's own log
	m := newRefDB(0)
	next := int64(0)
	for _, e := range c.canon {
		if e.Offset > off {
			break
		}
		ws, _ := decodeEntry(e)
		for _, wr := range ws {
			m.Apply(wr, e.Offset, e.Timestamp)
		}
		next = e.Offset + 1
	}
	if next <= off {
		ents, err := readLog(v.Wal, next-1)
		if err != nil {
			c.wl.fail("log-error", "after restart of %s: %v", n, err)
			return
		}
		for _, e := range ents {
			if e.Offset > off {
				break
			}
			if e.Offset != next {
				c.wl.fail("commit-offset-ahead-of-log", "after crash and restart, %s's DB stores commit offset %d but its log has no entry %d", n, off, next)
				return
			}
			ws, _ := decodeEntry(e)
			for _, wr := range ws {
				m.Apply(wr, e.Offset, e.Timestamp)
			}
			next++
		}
		if next <= off {
			c.wl.fail("commit-offset-ahead-of-log", "after crash and restart, %s's DB stores commit offset %d but its log ends before entry %d", n, off, next)
			return
		}
	}
	if msg := m.compareDump(dump, true); msg != "" {
		c.wl.fail("db-not-fold-of-log-prefix", "after crash and restart, %s's DB (stored commit offset %d, log ends at %d) is not the result of applying entries 0..%d once each, in order: %s (history: %s)", n, off, last, off, msg, lastN(c.wl.prog, 10))
		return
	}
	c.r.Count("restart_states_checked", 1)
	if off >= 0 {
		c.r.Count("restart_states_nonempty", 1)
	}
	if off < last {
		c.r.Count("restart_with_entries_to_replay", 1)
	}
}

// flushSome asks the engine of a random live node to flush its memtable in the background
// (Pebble may do so at any time; short runs would otherwise never reach a flush).
func (c *c06) flushSome(g *Rng) {
	var live []string
	for _, n := range c.names {
		if c.live(n) {
			live = append(live, n)
		}
	}
	if len(live) == 0 {
		return
	}
	n := live[g.Intn(len(live))]
	sn := c.w.Node(n)
	v, ok := sn.Server.SimShardView(0)
	if !ok || v.DB == nil {
		return
	}
	if p := kv.SimPebble(kv.SimKVOf(v.DB)); p != nil {
		sn.EP.Go(func() {
			defer func() { _ = recover() }() // the engine panics when it has been closed meanwhile
			_, _ = p.AsyncFlush()
		})
		c.r.Count("engine_flushes_injected", 1)
	}
}

// crashingBurst sends k requests concurrently and crashes a node (leader or follower) at a
// seeded instant while they are in flight; failed requests have an unknown outcome, the log
// decides.  Returns after the node has been restarted and checked.
func (c *c06) crashingBurst(g *Rng, k int) bool {
	victim := c.leader
	if g.Chance(50) {
		var f []string
		for _, n := range c.names {
			if n != c.leader && c.live(n) {
				f = append(f, n)
			}
		}
		if len(f) > 0 {
			victim = f[g.Intn(len(f))]
		}
	}
	power := g.Chance(60)
	delay := time.Duration(g.Range(0, 12000)) * time.Microsecond
	crashed := make(chan struct{})
	c.w.Net.After(delay, fmt.Sprintf("c07crash/%s/%d", victim, c.dirSeq[victim]), func() {
		defer close(crashed)
		if g.Chance(50) {
			c.flushSome(g)
		}
		c.crashNode(victim, power)
	})
	if g.Chance(70) {
		c.w.Net.After(time.Duration(g.Range(0, int(delay/time.Microsecond)))*time.Microsecond, fmt.Sprintf("c07flush/%d", c.dirSeq[victim]), func() { c.flushSome(g) })
	}
	c.wl.burstInReq = map[string]int{}
	reqs := make([]*proto.WriteRequest, k)
	for i := range reqs {
		reqs[i] = c.wl.genRequest(g)
	}
	c.wl.burstInReq = nil
	var wg sync.WaitGroup
	var failed atomic.Int64
	for i := 0; i < k; i++ {
		i := i
		wg.Add(1)
		c.wl.c.ctl.Go(func() {
			defer wg.Done()
			time.Sleep(time.Duration(H(c.r.Seed, "stagger", i, c.dirSeq[victim])%4000) * time.Microsecond)
			ctx, cancel := context.WithTimeout(context.Background(), 20*time.Second)
			defer cancel()
			reqs[i].Shard = &c.wl.c.shard
			if _, err := c.wl.c.client().Write(ctx, reqs[i]); err != nil {
				failed.Add(1)
			}
		})
	}
	wg.Wait()
	<-crashed
	c.wl.prog = append(c.wl.prog, fmt.Sprintf("burst(%d)+crash %s power=%v after %v (%d failed)", k, victim, power, delay, failed.Load()))
	c.r.Count("crashing_bursts", 1)
	c.r.Count("burst_writes_unknown", failed.Load())
	if !c.start(victim) {
		return false
	}
	c.checkAfterRestart(victim)
	if c.r.Failed() {
		return false
	}
	if victim != c.leader && g.Chance(50) {
		return c.attach(victim) && c.settleAndFold()
	}
	return c.elect(g) && c.settleAndFold()
}

// lonelyTail: the leader is cut off from both followers, receives k writes that can only reach its own log,
// is fenced and asked to lead the next term while still cut off, and finally rejoins under another leader.
// BecomeLeader must not return (nor may the tail be applied) before a quorum holds the tail: the call is
// expected to time out.  The node later has its tail cut by the new leader; its database must never have
// seen those entries (checked by the checkpoints and the restart oracle that follow).
func (c *c06) lonelyTail(g *Rng, k int) bool {
	sc := c.wl.c
	old := c.leader
	var others []string
	for _, n := range c.names {
		if n != old && c.live(n) && c.attached[n] {
			others = append(others, n)
		}
	}
	if len(others) != 2 || !c.settleAndFold() {
		return !c.r.Failed()
	}
	// both followers must hold everything that is committed (in C07 mode a follower that needs a
	// snapshot never catches up: snapshots bypass the strict file system and are not exercised there)
	lv := sc.view()
	if lv == nil {
		return true
	}
	for _, o := range others {
		v, ok := c.w.Node(o).Server.SimShardView(0)
		if !ok || v.Wal == nil || v.HeadOffset != lv.CommitOffset || v.Wal.LastOffset() != lv.CommitOffset {
			c.r.Count("lonely_tail_skipped_follower_behind", 1)
			return true
		}
	}
	cut := func(on bool) {
		for _, o := range others {
			if on {
				c.w.Net.Partition(old, o)
				c.w.Net.Partition(o, old)
			} else {
				c.w.Net.Heal(old, o)
				c.w.Net.Heal(o, old)
			}
		}
	}
	cut(true)
	c.wl.burstInReq = map[string]int{}
	reqs := make([]*proto.WriteRequest, k)
	for i := range reqs {
		reqs[i] = c.wl.genRequest(g)
	}
	c.wl.burstInReq = nil
	var wg sync.WaitGroup
	for i := 0; i < k; i++ {
		i := i
		wg.Add(1)
		sc.ctl.Go(func() {
			defer wg.Done()
			ctx, cancel := context.WithTimeout(context.Background(), 1500*time.Millisecond)
			defer cancel()
			reqs[i].Shard = &sc.shard
			_, _ = sc.client().Write(ctx, reqs[i]) // cannot commit
		})
	}
	wg.Wait()
	c.wl.prog = append(c.wl.prog, fmt.Sprintf("lonely-tail(%d) on %s", k, old))
	c.r.Count("lonely_tails", 1)
	// next term: everybody is fenced (the harness reaches every node), the old leader holds the best head
	sc.term++
	heads := map[string]*proto.EntryId{}
	for _, n := range append([]string{old}, others...) {
		h, err := c.newTerm(n)
		if err != nil {
			c.wl.fail("elect-error", "NewTerm(%d) on %s failed: %v", sc.term, n, err)
			return false
		}
		heads[n] = h
	}
	if better(heads[old], heads[others[0]]) && better(heads[old], heads[others[1]]) {
		c.r.Count("lonely_tail_uncommitted", 1)
		fm := map[string]*proto.EntryId{}
		for _, o := range others {
			fm[nodeInternal(o)] = heads[o]
		}
		ctx, cancel := context.WithTimeout(context.Background(), 3*time.Second)
		_, err := c.coordOf(old).BecomeLeader(ctx, &proto.BecomeLeaderRequest{Namespace: sc.ns, Shard: sc.shard, Term: sc.term, ReplicationFactor: 3, FollowerMaps: fm})
		cancel()
		if err == nil {
			c.r.Count("lonely_become_leader_returned", 1)
		}
	}
	// the coordinator gives up on it and elects among the two it can hear acknowledge each other
	sc.term++
	heads = map[string]*proto.EntryId{}
	for _, n := range append([]string{old}, others...) {
		h, err := c.newTerm(n)
		if err != nil {
			c.wl.fail("elect-error", "NewTerm(%d) on %s failed: %v", sc.term, n, err)
			return false
		}
		heads[n] = h
	}
	leader, follower := others[0], others[1]
	if better(heads[follower], heads[leader]) {
		leader, follower = follower, leader
	}
	c.attached = map[string]bool{follower: true}
	ctx, cancel := context.WithTimeout(context.Background(), 120*time.Second)
	defer cancel()
	if _, err := c.coordOf(leader).BecomeLeader(ctx, &proto.BecomeLeaderRequest{Namespace: sc.ns, Shard: sc.shard, Term: sc.term, ReplicationFactor: 3,
		FollowerMaps: map[string]*proto.EntryId{nodeInternal(follower): heads[follower]}}); err != nil {
		c.wl.fail("become-leader-error", "BecomeLeader(term %d) on %s (head %v) failed: %v", sc.term, leader, heads[leader], err)
		return false
	}
	c.leader = leader
	sc.node = c.w.Node(leader)
	c.wl.prog = append(c.wl.prog, fmt.Sprintf("elect %s term=%d (without %s)", leader, sc.term, old))
	c.r.Count("elections", 1)
	// something is written where the tail was, then the old leader comes back as a follower
	if !c.burst(g, g.Range(1, 4)) {
		return false
	}
	cut(false)
	// (a follower whose head term is above the leader's head at election time cannot be added in that
	// term: it rejoins through the next election)
	return c.elect(g) && c.settleAndFold()
}

func listFiles(dir string) string {
	var out []string
	_ = filepath.Walk(dir, func(p string, info os.FileInfo, err error) error {
		if err == nil && !info.IsDir() {
			rel, _ := filepath.Rel(dir, p)
			out = append(out, fmt.Sprintf("%s(%d)", rel, info.Size()))
		}
		return nil
	})
	return strings.Join(out, " ")
}

func lastN(s []string, n int) string {
	if len(s) > n {
		s = s[len(s)-n:]
	}
	return strings.Join(s, " ; ")
}

// burst sends k requests concurrently; returns once all have been answered.
func (c *c06) burst(g *Rng, k int) bool {
	var wg sync.WaitGroup
	errs := make([]error, k)
	reqs := make([]*proto.WriteRequest, k)
	c.wl.burstInReq = map[string]int{}
	defer func() { c.wl.burstInReq = nil }()
	for i := 0; i < k; i++ {
		reqs[i] = c.wl.genRequest(g)
		// sessions may have been closed by an earlier request of the burst; conditional and
		// sequence operations are resolved by the fold, not by the generator's guess
	}
	for i := 0; i < k; i++ {
		i := i
		wg.Add(1)
		c.wl.c.ctl.Go(func() {
			defer wg.Done()
			_, errs[i] = c.wl.c.write(reqs[i])
		})
	}
	wg.Wait()
	c.wl.prog = append(c.wl.prog, fmt.Sprintf("burst(%d)", k))
	for i, err := range errs {
		if err != nil {
			c.wl.fail("write-error", "burst write %s failed: %v", describeReq(reqs[i]), err)
			return false
		}
	}
	c.r.Count("burst_writes", int64(k))
	return c.fold()
}

func runC06(r *Run) { runReplicas(r, "C06") }

// C07 runs the same three-node harness with a strict engine file system (unsynced Pebble files
// are lost at power loss), injected engine flushes, crashes placed inside concurrent bursts and
// the restart oracle evaluated before any replay.
func runC07(r *Run) { runReplicas(r, "C07") }

func runReplicas(r *Run, prop string) {
	c07 := prop == "C07"
	rg := NewRng(r.Seed, "c06-knobs", prop)
	chunk := []int64{97, 1000, 4096, 64 * 1024, 1 << 20}[rg.Intn(5)]
	oldChunk := kv.MaxSnapshotChunkSize
	kv.MaxSnapshotChunkSize = chunk
	defer func() { kv.MaxSnapshotChunkSize = oldChunk }()
	if sg := NewRng(r.Seed, "c06-clock-skew"); sg.Chance(50) {
		// the leaders of different terms stamp entries from clocks that disagree by up to two seconds: the
		// timestamps of one log can step backwards at a leader change
		server.SimEntryTimestamp = func(_ string, _ int64, term int64, now uint64) uint64 {
			return uint64(int64(now) + int64(H(r.Seed, "term-clock", term)%4001) - 2000)
		}
		defer func() { server.SimEntryTimestamp = nil }()
		r.Knobs["leader_clock_skew"] = "±2s per term"
		r.Count("runs_with_leader_clock_skew", 1)
	}
	c := &c06{r: r, names: []string{"n1", "n2", "n3"}, dirSeq: map[string]int{}, started: map[string]bool{"n1": true}, attached: map[string]bool{}, snapshotted: map[string]bool{}, cutEmpty: map[string]bool{},
		prop: prop, strict: c07, fsByDir: map[string]*vfs.MemFS{}}
	if c.strict {
		c.cfgMod = func(cfg *server.Config) {
			cfg.DataDir = filepath.Join(filepath.Dir(filepath.Dir(cfg.WalDir)), nodeOfAddr(cfg.PublicServiceAddr)+"-db")
		}
	}
	wl := newW2(r, strings.ToLower(prop), w2Opts{sessions: true, indexes: true, sequences: true, bigRanges: true, cfgMod: c.cfgMod, preStart: func(w *World) {
		if c.strict {
			kv.SimFS = func(dataDir string) vfs.FS {
				fs := c.fsByDir[dataDir]
				if fs == nil {
					fs = vfs.NewStrictMem()
					c.fsByDir[dataDir] = fs
				}
				return fs
			}
			// in a third of the runs the snapshot sender and loader read and write the engine's files in
			// the same strict file system (installing a snapshot is then subject to the same crash model);
			// in the others snapshots cannot be delivered and the run stops judging once one is needed
			// (switched off: the strict in-memory file system forgets a whole directory tree at a power
			// loss unless every parent directory was synced, which neither the engine nor oxia does for the
			// levels above the shard directory; a snapshot-built replica -- whose log does not start at 0 --
			// then cannot be told apart from a genuinely broken one.  See DESIGN.md section 9.)
			c.noStrictSnapshots = !NewRng(r.Seed, "c07-strict-snapshots").Chance(33) || os.Getenv("OXSIM_STRICT_SNAPSHOTS") == ""
			r.Knobs["strict_fs_snapshots"] = !c.noStrictSnapshots
			if !c.noStrictSnapshots {
				r.Count("runs_with_strict_fs_snapshots", 1)
			}
			kv.SimFSOf = func(path string) vfs.FS {
				if c.noStrictSnapshots {
					return nil
				}
				for dir, fs := range c.fsByDir {
					if path == dir || strings.HasPrefix(path, dir+"/") {
						return fs
					}
				}
				return nil
			}
		}
	}})
	defer wl.w.Close()
	g := wl.g
	c.wl, c.w = wl, wl.w
	// snapshot installations are seen on the wire
	wl.w.Net.Tap = func(t *TapMsg) {
		if t.Kind == "open" && strings.HasSuffix(t.Method, "/SendSnapshot") {
			c.snapshotted[t.Dst] = true
			delete(c.cutEmpty, t.Dst)
			r.Count("snapshots_started", 1)
		}
		if t.Kind == "req" && !t.Dropped && strings.HasSuffix(t.Method, "/Truncate") {
			req := &proto.TruncateRequest{}
			if pb.Unmarshal(t.Payload, req) == nil && req.HeadEntryId != nil && req.HeadEntryId.Offset == wal.InvalidOffset {
				c.cutEmpty[t.Dst] = true
				r.Count("truncates_to_empty", 1)
				c.strictNeedsSnapshot(t.Dst) // the leader follows up with a snapshot
			}
		}
	}
	defer func() { wl.w.Net.Tap = nil }()
	if c07 {
		// right after a batch commit: sometimes the engine flushes its memtable (it may at any
		// time), sometimes the goroutine is held for a moment -- a quiescent point at which a
		// scheduled crash can land between two commits
		flushPct, holdPct := g.Range(0, 8), g.Range(0, 20)
		r.Knobs["after_commit"] = fmt.Sprintf("flush %d%% hold %d%%", flushPct, holdPct)
		kv.SimAfterCommit = func(p *pebble.DB) {
			if runtime.SimTag() == 0 {
				return
			}
			if int(rand.Uint64()%100) < flushPct {
				func() {
					defer func() { _ = recover() }()
					_ = p.Flush()
				}()
				r.Count("flush_right_after_commit", 1)
			}
			if int(rand.Uint64()%100) < holdPct {
				time.Sleep(time.Duration(rand.Uint64()%2000+1) * time.Microsecond)
				r.Count("hold_right_after_commit", 1)
			}
		}
		defer func() { kv.SimAfterCommit = nil }()
	}
	if g.Chance(60) {
		wl.w.SitePct = g.Range(10, 60)
		wl.w.YieldPct = g.Range(5, 40)
		wl.w.YieldMax = time.Duration(g.Range(50, 3000)) * time.Microsecond
	}
	r.Knobs["snapshot_chunk"] = chunk
	nops := g.Range(8, 40)
	if r.Tier == "thorough" {
		nops = g.Range(8, 100)
	}
	r.Knobs["plan_size"] = nops
	r.Sample = &wl.prog
	lateThird := g.Chance(60) && !c07 // n3 joins later, empty: snapshot route (the snapshot code reads engine files through the OS, not through the strict FS)
	ok := wl.w.RunScript(wl.c.ctl, 6*time.Hour, func() {
		wl.c.onFold = func(e *proto.LogEntry) { c.canon = append(c.canon, e) }
		if !c.start("n2") {
			return
		}
		if !lateThird && !c.start("n3") {
			return
		}
		if !c.elect(g) {
			return
		}
		for i := 0; i < nops && !r.Failed(); i++ {
			if !r.KeepItem(i) {
				continue
			}
			gi := NewRng(r.Seed, "c06op", i)
			k := gi.Intn(100)
			if c07 {
				// remap the mix: more crashes (also inside bursts) and engine flushes, no empty followers
				switch {
				case k < 22:
					if !c.crashingBurst(gi, gi.Range(2, 7)) {
						return
					}
					continue
				case k < 30:
					c.flushSome(gi)
					wl.prog = append(wl.prog, "flush")
					continue
				case k < 40:
					k = 35 // follower crash between operations
				case k < 46:
					k = 43 // leader crash between operations
				case k < 52:
					k = 20 // leader change
				case k < 60:
					k = 10 // burst
				case k < 64:
					k = 55 // checkpoint
				case k < 70:
					k = 3 // session
				case k < 73:
					k = 7
				case k < 79:
					if !c.lonelyTail(gi, gi.Range(1, 4)) {
						return
					}
					continue
				default:
					k = 99 // single write
					if gi.Chance(15) {
						c.flushSome(gi)
					}
				}
			}
			followers := func() []string {
				var f []string
				for _, n := range c.names {
					if n != c.leader && c.live(n) {
						f = append(f, n)
					}
				}
				return f
			}
			switch {
			case k < 6:
				if id, ok := wl.createSession(300000); ok {
					_ = id
					c.fold()
				}
			case k < 9 && len(wl.sessions) > 0:
				if id := wl.sessions[gi.Intn(len(wl.sessions))]; !wl.closed[id] {
					wl.closeSession(id)
					c.fold()
				}
			case k < 19: // pipelined writes, often followed at once by a leader change
				if !c.burst(gi, gi.Range(2, 7)) {
					return
				}
				if gi.Chance(60) {
					if !c.elect(gi) {
						return
					}
					r.Count("election_right_after_burst", 1)
				}
			case k < 27: // leader change
				if !c.elect(gi) {
					return
				}
			case k < 33: // graceful follower restart
				if f := followers(); len(f) == 2 {
					n := f[gi.Intn(2)]
					old := c.w.Node(n)
					old.Stop()
					if old.CloseStuck {
						return
					}
					delete(c.attached, n)
					wl.prog = append(wl.prog, "restart "+n)
					if !c.start(n) || !c.attach(n) {
						return
					}
					r.Count("follower_restarts", 1)
				}
			case k < 41: // follower crash: unflushed engine state is lost, the log is replayed
				if f := followers(); len(f) == 2 {
					n := f[gi.Intn(2)]
					c.crashNode(n, gi.Chance(50))
					wl.prog = append(wl.prog, "crash "+n)
					if !c.start(n) {
						return
					}
					c.checkAfterRestart(n)
					if r.Failed() || !c.attach(n) {
						return
					}
					r.Count("follower_crashes", 1)
				}
			case k < 46: // leader crash + election among all three
				if len(followers()) == 2 {
					n := c.leader
					c.crashNode(n, gi.Chance(50))
					wl.prog = append(wl.prog, "crash-leader "+n)
					if !c.start(n) {
						return
					}
					c.checkAfterRestart(n)
					if r.Failed() || !c.elect(gi) {
						return
					}
					r.Count("leader_crashes", 1)
				}
			case k < 52: // empty follower: late third node, or a follower whose disk was wiped
				if !c.started["n3"] {
					wl.prog = append(wl.prog, "join n3")
					if !c.start("n3") || !c.attach("n3") {
						return
					}
					r.Count("late_joins", 1)
				} else if f := followers(); len(f) == 2 {
					n := f[gi.Intn(2)]
					c.w.Node(n).Stop()
					delete(c.attached, n)
					_ = os.RemoveAll(c.dir(n))
					c.dirSeq[n]++
					wl.prog = append(wl.prog, "wipe "+n)
					// the leader still holds a cursor for this follower; a replica that lost its disk
					// re-enters through an election, which hands the leader its (empty) head
					if !c.start(n) || !c.elect(gi) {
						return
					}
					r.Count("follower_wipes", 1)
				}
			case k < 58:
				c.checkpoint(fmt.Sprintf("checkpoint after op %d", i), gi.Chance(50))
			case k < 62:
				time.Sleep(time.Duration(gi.Range(1, 3000)) * time.Millisecond)
			case k < 66 && !c07 && c.started["n3"]: // a tail that only the cut-off leader holds (see lonelyTail)
				if !c.lonelyTail(gi, gi.Range(1, 4)) {
					return
				}
			default:
				if !wl.doWrite(wl.genRequest(gi)) {
					return
				}
				c.fold()
			}
		}
		if r.Failed() {
			return
		}
		// one more write so that followers learn the final commit offset, then compare
		c.checkpoint("before the final write", true)
		if !r.Failed() && wl.doWrite(&proto.WriteRequest{Puts: []*proto.PutRequest{{Key: "final", Value: []byte("x")}}}) {
			wl.doWrite(&proto.WriteRequest{Puts: []*proto.PutRequest{{Key: "final2", Value: []byte("y")}}})
			time.Sleep(2 * time.Second)
			c.checkpoint("end of run", true)
		}
	})
	if !ok && !r.Failed() {
		r.Fail("stuck", "script did not finish: %s", lastOf(wl.prog))
	}
	for _, n := range c.names {
		if c.live(n) {
			c.w.Node(n).Stop()
		}
	}
	r.Sig(strings.Join(wl.prog, ";"))
	if r.Stat("replica_dumps_checked") > 3 && r.Stat("elections") > 1 {
		r.Count("nontrivial", 1)
	}
}

func init() {
	registry["C06"] = runC06
	registry["C07"] = runC07
}
