#!/bin/bash
# runs every claimed check's thorough tier with a reduced wall budget (default 360 s each) and a given VERIF_SEED
cd "$(dirname "$(readlink -f "$0")")/.." && V=$(pwd)
budget=${1:-360}; seed=${2:-1}
mkdir -p $V/.build; out=$V/.build/thorough-sweep-$seed.txt
: > $out
for p in $(python3 -c "import json;print(' '.join(c['property_id'] for c in json.load(open('MANIFEST.json'))['checks']))"); do
  VERIF_SEED=$seed ./check $p thorough --budget $budget > $V/.build/thorough-$p.log 2>&1
  rc=$?
  echo "$p rc=$rc $(grep 'runs in' $V/.build/thorough-$p.log | tail -1)" | tee -a $out
  grep "VIOLATION\|ZERO-PROBE\|HARNESS\|class=" $V/.build/thorough-$p.log | cut -c1-400 | tee -a $out
done
