// Overlay-only file (oxsim, DESIGN.md §3.2 S4): adds a declaration to pebble's vfs package,
// changes none.
package vfs

// SimClone returns a new strict MemFS holding a deep copy of y: of its synced state only
// (power loss) or of everything visible (process kill).  In the copy everything is synced.
// y itself is left untouched, so goroutines still using it are not disturbed.
func (y *MemFS) SimClone(onlySynced bool) *MemFS {
	y.mu.Lock()
	defer y.mu.Unlock()
	return &MemFS{root: simCloneNode(y.root, onlySynced, y.strict), strict: true}
}

func simCloneNode(f *memNode, onlySynced, strict bool) *memNode {
	c := &memNode{name: f.name, isDir: f.isDir}
	if f.isDir {
		src := f.children
		if onlySynced && strict {
			src = f.syncedChildren
		}
		c.children = make(map[string]*memNode, len(src))
		c.syncedChildren = make(map[string]*memNode, len(src))
		for k, v := range src {
			n := simCloneNode(v, onlySynced, strict)
			c.children[k] = n
			c.syncedChildren[k] = n
		}
		return c
	}
	f.mu.Lock()
	d := f.mu.data
	if onlySynced && strict {
		d = f.mu.syncedData
	}
	c.mu.data = append([]byte(nil), d...)
	c.mu.syncedData = append([]byte(nil), d...)
	c.mu.modTime = f.mu.modTime
	f.mu.Unlock()
	return c
}
