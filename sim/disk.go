package oxsim

// Durability model for WAL segment files (DESIGN.md §3.2 S4).  The simmmap shim reports
// map / flush / unmap; the tracker keeps, per segment file, the bytes known durable
// (content at first map, refreshed by each successful msync).  A power-loss image of a
// directory is the durable bytes plus a hash-chosen subset of the dirty pages
// (optionally one torn page); index files are written without fsync and may be
// complete, truncated, empty or missing.

import (
	"bytes"
	"errors"
	"os"
	"path/filepath"
	"strings"
	"sync"
	"syscall"
	"time"

	"github.com/oxia-db/oxia/common/simmmap"
)

type diskTracker struct {
	mu       sync.Mutex
	shadow   map[string][]byte // path -> durable content of the mapped region
	flushes  int64
	FreezeAt int64 // >0: flushes with ordinal >= FreezeAt are ignored (crash point reached)
	Frozen   bool
	FailAt   int64 // >0: the flush with this ordinal returns an error
	OnFreeze func()
	root     string
	closedAt map[string]time.Time // segment file -> (fake) time its read-write mapping was closed
	inode    map[string]uint64
}

// idxWritebackWindow: an index file (written without fsync when its segment is closed)
// is assumed to have reached the disk once this much simulated time has passed.
const idxWritebackWindow = 30 * time.Second

var errInjectedMsync = errors.New("oxsim: injected msync failure (EIO)")

func newDiskTracker(root string) *diskTracker {
	return &diskTracker{shadow: map[string][]byte{}, root: root, closedAt: map[string]time.Time{}, inode: map[string]uint64{}}
}

var activeTrackers struct {
	mu sync.Mutex
	l  []*diskTracker
}

func (d *diskTracker) install() {
	activeTrackers.mu.Lock()
	activeTrackers.l = append(activeTrackers.l, d)
	activeTrackers.mu.Unlock()
	simmmap.OnMap = dispatchMap
	simmmap.OnFlush = dispatchFlush
	simmmap.OnUnmap = dispatchUnmap
}

func dispatchUnmap(path string, m []byte) {
	if d := trackerFor(path); d != nil {
		d.mu.Lock()
		if _, ok := d.shadow[path]; ok {
			d.closedAt[path] = time.Now()
		}
		d.mu.Unlock()
	}
}

func (d *diskTracker) uninstall() {
	activeTrackers.mu.Lock()
	for i, x := range activeTrackers.l {
		if x == d {
			activeTrackers.l = append(activeTrackers.l[:i], activeTrackers.l[i+1:]...)
			break
		}
	}
	activeTrackers.mu.Unlock()
}

func trackerFor(path string) *diskTracker {
	activeTrackers.mu.Lock()
	defer activeTrackers.mu.Unlock()
	for _, d := range activeTrackers.l {
		if strings.HasPrefix(path, d.root+string(filepath.Separator)) {
			return d
		}
	}
	return nil
}

func fileIno(path string) uint64 {
	if fi, err := os.Stat(path); err == nil {
		if st, ok := fi.Sys().(*syscall.Stat_t); ok {
			return st.Ino
		}
	}
	return 0
}

func dispatchMap(path string, m []byte, writable bool) {
	if d := trackerFor(path); d != nil && writable {
		ino := fileIno(path)
		d.mu.Lock()
		// a file that was deleted and created again under the same name starts from its own
		// (synced, zero-filled) content, not from the durable bytes of its predecessor
		if _, ok := d.shadow[path]; !ok || d.inode[path] != ino {
			d.shadow[path] = append([]byte(nil), m...)
			d.inode[path] = ino
			delete(d.closedAt, path)
		}
		d.mu.Unlock()
	}
}

func dispatchFlush(path string, m []byte) error {
	d := trackerFor(path)
	if d == nil {
		return nil
	}
	d.mu.Lock()
	d.flushes++
	n := d.flushes
	if d.FailAt > 0 && n == d.FailAt {
		d.mu.Unlock()
		return errInjectedMsync
	}
	if d.FreezeAt > 0 && n >= d.FreezeAt {
		first := !d.Frozen
		d.Frozen = true
		f := d.OnFreeze
		d.mu.Unlock()
		if first && f != nil {
			f()
		}
		return nil // the node believes it synced; nothing became durable
	}
	if d.Frozen {
		d.mu.Unlock()
		return nil
	}
	d.shadow[path] = append(d.shadow[path][:0], m...)
	d.mu.Unlock()
	return nil
}

// Freeze stops durability from advancing (used when a node is crashed at a quiescent point).
func (d *diskTracker) Freeze() {
	d.mu.Lock()
	d.Frozen = true
	d.mu.Unlock()
}

type imageStats struct {
	DirtyPages, PagesKept, PagesLost, Torn int
	IdxMissing, IdxEmpty, IdxTruncated    int
}

// PowerLossImage writes into dst the state of src after a power loss, with choices
// derived from H(seed, relative path, page).  pageSize is the write-back granularity.
func (d *diskTracker) PowerLossImage(src, dst string, seed uint64, pageSize int, st *imageStats) error {
	return filepath.Walk(src, func(p string, info os.FileInfo, err error) error {
		if err != nil {
			return err
		}
		rel, _ := filepath.Rel(src, p)
		out := filepath.Join(dst, rel)
		if info.IsDir() {
			return os.MkdirAll(out, 0o755)
		}
		cur, err := os.ReadFile(p)
		if err != nil {
			return err
		}
		switch {
		case strings.HasSuffix(p, ".txnx") || strings.HasSuffix(p, ".txn"):
			d.mu.Lock()
			dur, tracked := d.shadow[p]
			dur = append([]byte(nil), dur...)
			d.mu.Unlock()
			if !tracked {
				return os.WriteFile(out, cur, 0o644)
			}
			img := append([]byte(nil), cur...)
			copy(img, dur) // durable region
			tornDone := false
			for off := 0; off < len(dur) && off < len(cur); off += pageSize {
				end := off + pageSize
				if end > len(dur) {
					end = len(dur)
				}
				if end > len(cur) {
					end = len(cur)
				}
				if bytes.Equal(dur[off:end], cur[off:end]) {
					continue
				}
				st.DirtyPages++
				h := H(seed, "page", rel, off)
				switch {
				case h%100 < 45:
					copy(img[off:end], cur[off:end])
					st.PagesKept++
				case h%100 < 55 && !tornDone && end-off >= 8:
					k := int(H(seed, "torn", rel, off)%uint64(end-off-1)) + 1
					copy(img[off:off+k], cur[off:off+k])
					tornDone = true
					st.Torn++
				default:
					st.PagesLost++
				}
			}
			return os.WriteFile(out, img, 0o644)
		case strings.HasSuffix(p, ".idxx") || strings.HasSuffix(p, ".idx"):
			txn := strings.TrimSuffix(strings.TrimSuffix(p, ".idxx"), ".idx")
			d.mu.Lock()
			ct, ok := d.closedAt[txn+".txnx"]
			if !ok {
				ct, ok = d.closedAt[txn+".txn"]
			}
			d.mu.Unlock()
			if !ok || time.Since(ct) >= idxWritebackWindow {
				return os.WriteFile(out, cur, 0o644) // written back long ago
			}
			h := H(seed, "idx", rel) % 100
			switch {
			case h < 40:
				return os.WriteFile(out, cur, 0o644)
			case h < 60:
				st.IdxMissing++
				return nil
			case h < 80:
				st.IdxEmpty++
				return os.WriteFile(out, nil, 0o644)
			default:
				st.IdxTruncated++
				k := 0
				if len(cur) > 0 {
					k = int(H(seed, "idxlen", rel) % uint64(len(cur)))
				}
				return os.WriteFile(out, cur[:k], 0o644)
			}
		default:
			return os.WriteFile(out, cur, 0o644)
		}
	})
}

// KillImage copies src to dst as it is (process kill: the page cache survives).
func copyTree(src, dst string) error {
	return filepath.Walk(src, func(p string, info os.FileInfo, err error) error {
		if err != nil {
			return err
		}
		rel, _ := filepath.Rel(src, p)
		out := filepath.Join(dst, rel)
		if info.IsDir() {
			return os.MkdirAll(out, 0o755)
		}
		b, err := os.ReadFile(p)
		if err != nil {
			return err
		}
		return os.WriteFile(out, b, 0o644)
	})
}
