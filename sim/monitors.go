package oxsim

// Wire taps and quiescent-point monitors of the W1 chaos engine (C01, C03, C04, C05).

import (
	"fmt"
	"os"
	"sort"
	"strings"

	"google.golang.org/grpc/codes"
	pb "google.golang.org/protobuf/proto"

	"github.com/oxia-db/oxia/common/constant"
	"github.com/oxia-db/oxia/common/simsync"
	"github.com/oxia-db/oxia/coordinator/model"
	"github.com/oxia-db/oxia/proto"
	"github.com/oxia-db/oxia/server/wal"
)

type fenceInfo struct {
	term     int64
	headOff  int64 // log end (last appended) at the instant the node replied
	reported *proto.EntryId
	cleared  bool
	inc      int
}

type monitors struct {
	c *chaos
	// mu is channel based (durably blocking in the bubble): monitor code calls into the system
	// under test (WAL readers) while holding it, and that may have to wait for a yielded goroutine
	mu simsync.Mutex

	// C05
	storedTerm   map[int64]int64              // shard -> highest term successfully stored
	storedMeta   map[int64]model.ShardMetadata // shard -> last stored metadata
	sentTermMax  map[int64]int64              // shard -> highest term ever put on the wire by any coordinator incarnation
	ntReq        map[string]*proto.NewTermRequest // call id -> request
	ntPreTerm    map[string]int64                 // call id -> node term before handling it
	ntResp       map[int64]map[int64]map[string]*proto.EntryId // shard -> term -> node -> head (responses delivered to the coordinator)
	leadersSeen  map[int64]map[int64]string   // shard -> term -> node observed LEADER
	nodeTerm     map[string]map[int64]int64   // node -> shard -> last observed term
	deleted      map[string]map[int64]bool    // node -> shard -> DeleteShard seen since the last observation
	delCall      map[string]int64             // DeleteShard call id -> shard
	hunted       map[int64]int                // shard -> leaders cut off so far (directed schedule)
	ackers       map[string]map[string]bool    // shard/offset/term -> followers that acknowledged that entry to a sender holding it
	ledger       map[int64]map[int64]commitRec // shard -> offset -> what was first applied there as committed
	ledgerSeen   map[string]appliedMark        // node/shard -> how far that node's applied prefix is in the ledger
	ledgerLeaders map[string]bool              // node/shard/term -> leader log compared with the ledger
	snapPending  map[string]map[int64]string  // node -> shard -> SendSnapshot stream delivered and not (yet) answered with a SnapshotResponse
	blReq        map[string]*proto.BecomeLeaderRequest
	blResp       map[string]map[string]*proto.EntryId // BecomeLeader call id -> NewTerm responders known at send time

	// C04
	fences map[string]map[int64]*fenceInfo // node -> shard -> fence
	streamTerm map[string]int64            // replicate stream id -> term
	streamShard map[string]int64

	// C01 / C03
	tagTerm  map[string]int64 // value tag -> term of the log entry carrying it (from Append frames)
	events   int64
	healing  bool
	checkedLeaders map[string]bool
	ackChecks int64

	// C02: when each term's fencing first reached any node, and when each node was told to lead
	appliedSeen  map[string]appliedMark // node/shard -> last sampled applied commit offset
	ackedOK      map[string]bool // follower/shard/offset/term: it acknowledged that entry to a leader holding the same entry
	headBelow    map[int64]map[int64][]string // shard -> term -> NewTerm answers whose head lies below the commit offset of the state the node holds
	electionNote map[int64]map[int64]string // shard -> term -> how many of ensemble+removed had answered NewTerm when BecomeLeader was sent
	fenceStamp map[int64]map[int64]int64 // shard -> term -> history stamp of the first NewTerm delivery
	leadAt     map[string]map[int64][]leadEv
}

type appliedMark struct {
	inc int
	off int64
}

type leadEv struct {
	stamp, term int64
}

func newMonitors(c *chaos) *monitors {
	return &monitors{c: c, storedTerm: map[int64]int64{}, storedMeta: map[int64]model.ShardMetadata{}, sentTermMax: map[int64]int64{},
		ntReq: map[string]*proto.NewTermRequest{}, ntPreTerm: map[string]int64{}, ntResp: map[int64]map[int64]map[string]*proto.EntryId{},
		leadersSeen: map[int64]map[int64]string{}, nodeTerm: map[string]map[int64]int64{}, deleted: map[string]map[int64]bool{}, snapPending: map[string]map[int64]string{}, delCall: map[string]int64{}, hunted: map[int64]int{}, ledger: map[int64]map[int64]commitRec{}, ackers: map[string]map[string]bool{}, ledgerSeen: map[string]appliedMark{}, ledgerLeaders: map[string]bool{}, blReq: map[string]*proto.BecomeLeaderRequest{}, blResp: map[string]map[string]*proto.EntryId{},
		fences: map[string]map[int64]*fenceInfo{}, streamTerm: map[string]int64{}, streamShard: map[string]int64{},
		tagTerm: map[string]int64{}, checkedLeaders: map[string]bool{},
		appliedSeen: map[string]appliedMark{}, ackedOK: map[string]bool{}, electionNote: map[int64]map[int64]string{}, headBelow: map[int64]map[int64][]string{}, fenceStamp: map[int64]map[int64]int64{}, leadAt: map[string]map[int64][]leadEv{}}
}

func (m *monitors) want(p string) bool {
	// every monitor runs in every flavour; the violation is attributed to the property it belongs to
	return true
}

// swapNote marks violations observed in a history that contains a node swap: the swap
// election protocol has known gaps (known_findings.json), other histories do not.
// pastLeaders lists the nodes that have been sent BecomeLeader for the shard so far.  Takes mu.
func (m *monitors) pastLeaders(shard int64) []string {
	m.mu.Lock()
	defer m.mu.Unlock()
	var out []string
	for n, per := range m.leadAt {
		if len(per[shard]) > 0 {
			out = append(out, n)
		}
	}
	sort.Strings(out)
	return out
}

func (m *monitors) swapNote() string {
	if m.c.swaps.Load() > 0 {
		return " [history includes a node swap]"
	}
	return ""
}

// electionFacts lists what was unusual about the elections of a shard (for end-of-run oracles, whose
// findings are consequences of an election that happened earlier).  Takes mu.
func (m *monitors) electionFacts(shard int64) string {
	m.mu.Lock()
	defer m.mu.Unlock()
	return m.electionFactsLocked(shard, -1)
}

// electionFactsLocked: mu held; skip leaves out the note of one term (already quoted by the caller).
func (m *monitors) electionFactsLocked(shard, skip int64) string {
	var terms []int64
	for t := range m.electionNote[shard] {
		terms = append(terms, t)
	}
	sort.Slice(terms, func(i, j int) bool { return terms[i] < terms[j] })
	var out []string
	for _, t := range terms {
		n := m.electionNote[shard][t]
		if t == skip {
			continue
		}
		if strings.Contains(n, "was ignored") || strings.Contains(n, "NOT a majority") || strings.Contains(n, "did not count when the leader was chosen") || strings.Contains(n, "have yet to catch up") {
			out = append(out, n)
		}
	}
	if len(out) == 0 {
		return ""
	}
	return " (unusual elections of this shard: " + strings.Join(out, " | ") + ")"
}

func (m *monitors) fail(prop, class, f string, a ...any) {
	if m.c.r.Opts["monitors"] == "off" { // sensitivity experiments: let the history oracle decide alone
		m.c.r.Count("monitor_alarms_suppressed", 1)
		return
	}
	f += m.swapNote()
	// a monitor of another property than the one under check still reports (it is a real
	// violation), but under its own class prefix so that known findings stay specific
	if prop != m.c.o.Prop {
		class = prop + ":" + class
	}
	m.c.r.Fail(class, f, a...)
}

func nodeOfAddr(a string) string {
	if i := strings.IndexByte(a, ':'); i > 0 {
		return a[:i]
	}
	return a
}

// ---------------------------------------------------------------- metadata stores (C05 a,b)

func (m *monitors) onStore(n int, cs *model.ClusterStatus) {
	m.mu.Lock()
	defer m.mu.Unlock()
	for _, ns := range cs.Namespaces {
		for shard, sm := range ns.Shards {
			if prev, ok := m.storedTerm[shard]; ok && sm.Term < prev {
				m.fail("C05", "stored-term-decreased", "metadata store #%d: shard %d term %d after term %d had been stored", n, shard, sm.Term, prev)
			}
			if prev, ok := m.storedTerm[shard]; !ok || sm.Term > prev {
				m.storedTerm[shard] = sm.Term
			}
			m.storedMeta[shard] = sm.Clone()
		}
	}
}

// ---------------------------------------------------------------- taps

func (m *monitors) tap(t *TapMsg) {
	if t.Dropped {
		return
	}
	m.mu.Lock()
	defer m.mu.Unlock()
	meth := t.Method
	switch {
	case t.Kind == "req" && strings.HasSuffix(meth, "/NewTerm"):
		req := &proto.NewTermRequest{}
		if pb.Unmarshal(t.Payload, req) != nil {
			return
		}
		m.ntReq[t.CallID] = req
		if m.fenceStamp[req.Shard] == nil {
			m.fenceStamp[req.Shard] = map[int64]int64{}
		}
		if _, ok := m.fenceStamp[req.Shard][req.Term]; !ok {
			m.fenceStamp[req.Shard][req.Term] = m.c.Stamp()
		}
		// the node's term right before it handles this request
		m.ntPreTerm[t.CallID] = -2
		if sn := m.c.w.Node(t.Dst); sn != nil && !sn.EP.Dead() && sn.Server != nil {
			if v, ok := sn.Server.SimShardView(req.Shard); ok {
				m.ntPreTerm[t.CallID] = v.Term
			}
		}
		if t.Src == "coord" {
			// (a) the coordinator never issues a term it has not first made durable
			if st, ok := m.storedTerm[req.Shard]; !ok || req.Term > st {
				m.fail("C05", "term-sent-before-durable", "NewTerm(shard %d, term %d) reached %s but the highest term in durably stored metadata is %d", req.Shard, req.Term, t.Dst, m.storedTerm[req.Shard])
			}
			if req.Term > m.sentTermMax[req.Shard] {
				m.sentTermMax[req.Shard] = req.Term
			}
		}
	case t.Kind == "resp" && strings.HasSuffix(meth, "/NewTerm"):
		req := m.ntReq[t.CallID]
		if req == nil || (t.Status != nil && t.Status.Code() != codes.OK) {
			return
		}
		res := &proto.NewTermResponse{}
		if pb.Unmarshal(t.Payload, res) != nil {
			return
		}
		if t.Dst == "coord" {
			if m.ntResp[req.Shard] == nil {
				m.ntResp[req.Shard] = map[int64]map[string]*proto.EntryId{}
			}
			if m.ntResp[req.Shard][req.Term] == nil {
				m.ntResp[req.Shard][req.Term] = map[string]*proto.EntryId{}
			}
			m.ntResp[req.Shard][req.Term][t.Src] = res.HeadEntryId
		}
	case t.Kind == "req" && strings.HasSuffix(meth, "/BecomeLeader"):
		req := &proto.BecomeLeaderRequest{}
		if pb.Unmarshal(t.Payload, req) != nil {
			return
		}
		m.blReq[t.CallID] = req
		if m.leadAt[t.Dst] == nil {
			m.leadAt[t.Dst] = map[int64][]leadEv{}
		}
		m.leadAt[t.Dst][req.Shard] = append(m.leadAt[t.Dst][req.Shard], leadEv{m.c.Stamp(), req.Term})
		m.clearFence(t.Dst, req.Shard, req.Term)
		if t.Src == "coord" {
			m.checkBecomeLeader(t.Dst, req, m.blResp[t.CallID])
		}
		if m.c.o.CheckLinearizability {
			m.c.probeDuringElection(t.Dst, req.Shard, req.Term)
		}
	case t.Kind == "req" && strings.HasSuffix(meth, "/DeleteShard"):
		req := &proto.DeleteShardRequest{}
		if pb.Unmarshal(t.Payload, req) == nil {
			// an explicitly deleted replica starts from scratch if it is ever re-created
			delete(m.nodeTerm[t.Dst], req.Shard)
			delete(m.fences[t.Dst], req.Shard)
			delete(m.snapPending[t.Dst], req.Shard)
			if m.deleted[t.Dst] == nil {
				m.deleted[t.Dst] = map[int64]bool{}
			}
			m.deleted[t.Dst][req.Shard] = true
			m.delCall[t.CallID] = req.Shard
		}
	case t.Kind == "req" && strings.HasSuffix(meth, "/Truncate"):
		req := &proto.TruncateRequest{}
		if pb.Unmarshal(t.Payload, req) == nil {
			m.clearFence(t.Dst, req.Shard, req.Term)
			m.checkTruncate(t, req)
		}
	case t.Kind == "open" && (strings.HasSuffix(meth, "/Replicate") || strings.HasSuffix(meth, "/SendSnapshot")):
		var term, shard int64 = -1, 0
		if v := t.MD.Get("term"); len(v) == 1 {
			fmt.Sscan(v[0], &term)
		}
		if v := t.MD.Get("shard-id"); len(v) == 1 {
			fmt.Sscan(v[0], &shard)
		}
		m.streamTerm[t.StreamID] = term
		m.streamShard[t.StreamID] = shard
		if strings.HasSuffix(meth, "/SendSnapshot") {
			m.clearFence(t.Dst, shard, term)
			if !t.Sent && !t.Dropped {
				if m.snapPending[t.Dst] == nil {
					m.snapPending[t.Dst] = map[int64]string{}
				}
				m.snapPending[t.Dst][shard] = t.StreamID
			}
		}
	case strings.HasSuffix(meth, "/SendSnapshot") && !t.ToServer && (t.Kind == "data" || t.Kind == "status"):
		m.snapAnswered(t)
	case t.Kind == "data" && t.ToServer && strings.HasSuffix(meth, "/Replicate"):
		ap := &proto.Append{}
		if pb.Unmarshal(t.Payload, ap) != nil || ap.Entry == nil {
			return
		}
		shard := m.streamShard[t.StreamID]
		m.clearFence(t.Dst, shard, ap.Term)
		// remember which term's entry carries which tag (for C01)
		if ws, err := decodeEntry(ap.Entry); err == nil {
			for _, w := range ws {
				for _, p := range w.Puts {
					if _, ok := m.tagTerm[string(p.Value)]; !ok {
						m.tagTerm[string(p.Value)] = ap.Entry.Term
					}
				}
			}
		}
	}
}

// checkTruncate: C03.  A leader must never cut a follower below what that follower has already
// applied as committed.  mu held; runs at delivery, before the follower handles the request.
func (m *monitors) checkTruncate(t *TapMsg, req *proto.TruncateRequest) {
	fn, ln := m.c.w.Node(t.Dst), m.c.w.Node(t.Src)
	if fn == nil || fn.EP.Dead() || fn.Server == nil || req.HeadEntryId == nil {
		return
	}
	fv, ok := fn.Server.SimShardView(req.Shard)
	if !ok || fv.Wal == nil || fv.Status == proto.ServingStatus_LEADER {
		return
	}
	m.c.r.Count("truncates_checked", 1)
	applied := fv.CommitOffset
	if fv.DB != nil {
		if c, err := fv.DB.ReadCommitOffset(); err == nil && c > applied {
			applied = c
		}
	}
	cut := req.HeadEntryId.Offset
	if applied < 0 {
		return
	}
	// the first applied offset at which the leader holds a *different* entry than the follower; a leader
	// that no longer has those offsets in its log (trimmed, or itself built from a snapshot) re-sends a
	// snapshot, which is not a divergence.  Offsets above the cut are about to be removed, offsets at or
	// below it are kept and built upon: a difference is a violation either way.
	var lw wal.Wal
	if ln != nil && !ln.EP.Dead() && ln.Server != nil {
		if lv, ok := ln.Server.SimShardView(req.Shard); ok {
			lw = lv.Wal
		}
	}
	if lw == nil {
		return
	}
	terms := func(w wal.Wal) map[int64]int64 {
		out := map[int64]int64{}
		if ents, err := readLog(w, -1); err == nil {
			for _, e := range ents {
				if e.Offset > applied {
					break
				}
				out[e.Offset] = e.Term
			}
		}
		return out
	}
	ft, lt := terms(fv.Wal), terms(lw)
	at, tf, tl := int64(-1), int64(-1), int64(-1)
	for off := int64(0); off <= applied; off++ {
		a, okA := ft[off]
		b, okB := lt[off]
		if !okA {
			continue
		}
		if !okB {
			if off > cut && off > lw.LastOffset() && lw.LastOffset() >= lw.FirstOffset() && lw.FirstOffset() <= cut+1 {
				// the leader's log ends before an entry the follower has applied as committed
				at, tf, tl = off, a, -1
				break
			}
			continue
		}
		if a != b {
			at, tf, tl = off, a, b
			break
		}
	}
	if at < 0 {
		m.c.r.Count("truncates_below_commit_benign", 1)
		return
	}
	why := fmt.Sprintf("at offset %d the follower holds an entry of term %d, the leader an entry of term %d", at, tf, tl)
	if tl < 0 {
		why = fmt.Sprintf("the leader's log ends at offset %d, before the follower's committed entry %d (term %d)", lw.LastOffset(), at, tf)
	}
	// was the entry the follower holds at that offset ever acknowledged by a node to a sender that
	// held it identically (i.e. really replicated), as opposed to existing on this node only?
	legit := false
	for _, n := range m.c.cl.NodeNames {
		if m.ackedOK[fmt.Sprintf("%s/%d/%d/t%d", n, req.Shard, at, tf)] {
			legit = true
		}
	}
	if tf >= 0 && tl > tf && legit {
		why = fmt.Sprintf("the follower's entries from offset %d on are of term %d and were committed later, in a higher term, by a leader that added no entry of its own; the new leader holds never-committed entries of the intermediate term %d at those offsets and won the election on its higher head term", at, tf, tl)
	}
	if os.Getenv("OXSIM_DEBUG_ACKS") != "" {
		var ks []string
		for k, v := range m.ackedOK {
			if strings.HasPrefix(k, t.Dst+"/") || strings.Contains(k, fmt.Sprintf("/%d/t", at)) || len(ks) < 6 {
				ks = append(ks, fmt.Sprintf("%s=%v", k, v))
			}
		}
		sort.Strings(ks)
		why += fmt.Sprintf(" [acks recorded: %v of %d total, ackChecks=%d]", ks, len(m.ackedOK), m.ackChecks)
	}
	note := ""
	if x := m.electionNote[req.Shard][req.Term]; x != "" {
		note = " (" + x + ")"
	}
	note += m.electionFactsLocked(req.Shard, req.Term)
	if at <= cut {
		m.fail("C03", "committed-prefix-differs-from-leader", "leader %s (term %d) tells follower %s to keep its log of shard %d up to offset %d and builds on it, but among the entries the follower has applied as committed (up to offset %d) the two logs differ: %s; follower log %s, leader log %s%s",
			t.Src, req.Term, t.Dst, req.Shard, cut, applied, why, termsOf(fv.Wal), termsOf(lw), note)
		return
	}
	m.fail("C03", "committed-entries-truncated", "leader %s (term %d) tells follower %s to truncate shard %d to offset %d although the follower has applied entries up to offset %d as committed: %s; follower log %s%s",
		t.Src, req.Term, t.Dst, req.Shard, cut, applied, why, termsOf(fv.Wal), note)
}

func (m *monitors) clearFence(node string, shard, term int64) {
	if f := m.fences[node][shard]; f != nil && term >= f.term {
		f.cleared = true
	}
}

// snapAnswered: the install finished (the new DB carries the term before the response is sent), or the
// follower refused the stream for its term before touching its state.  mu held.
func (m *monitors) snapAnswered(t *TapMsg) {
	if t.Kind == "data" || (t.Status != nil && t.Status.Code() == constant.CodeInvalidTerm) {
		shard := m.streamShard[t.StreamID]
		if m.snapPending[t.Src][shard] == t.StreamID {
			delete(m.snapPending[t.Src], shard)
		}
	}
}

// tapSent runs at the first quiescent point after a message was sent.
func (m *monitors) tapSent(t *TapMsg) {
	m.mu.Lock()
	defer m.mu.Unlock()
	switch {
	case strings.HasSuffix(t.Method, "/SendSnapshot") && !t.ToServer && (t.Kind == "data" || t.Kind == "status"):
		m.snapAnswered(t)
	case t.Kind == "resp" && strings.HasSuffix(t.Method, "/DeleteShard"):
		if shard, ok := m.delCall[t.CallID]; ok && t.Status != nil && t.Status.Code() != codes.OK {
			// the node refused to delete the replica: it keeps its term
			delete(m.deleted[t.Src], shard)
		}
	case t.Kind == "req" && strings.HasSuffix(t.Method, "/BecomeLeader") && t.Src == "coord":
		// what the coordinator had received when it decided (send time, not delivery time)
		req := &proto.BecomeLeaderRequest{}
		if pb.Unmarshal(t.Payload, req) == nil {
			snap := map[string]*proto.EntryId{}
			for n, h := range m.ntResp[req.Shard][req.Term] {
				snap[n] = h
			}
			m.blResp[t.CallID] = snap
		}
	case t.Kind == "resp" && strings.HasSuffix(t.Method, "/NewTerm"):
		req := m.ntReq[t.CallID]
		if req == nil || (t.Status != nil && t.Status.Code() != codes.OK) {
			return
		}
		res := &proto.NewTermResponse{}
		if pb.Unmarshal(t.Payload, res) != nil || res.HeadEntryId == nil {
			return
		}
		node := t.Src
		sn := m.c.w.Node(node)
		if sn == nil || sn.EP.Dead() || sn.Server == nil {
			return
		}
		v, ok := sn.Server.SimShardView(req.Shard)
		if !ok || v.Wal == nil {
			return
		}
		{
			// a node whose log was emptied by a snapshot install answers with the head of that empty log
			held := v.CommitOffset
			if v.DB != nil {
				if c, err := v.DB.ReadCommitOffset(); err == nil && c > held {
					held = c
				}
			}
			if res.HeadEntryId.Offset < held {
				if m.headBelow[req.Shard] == nil {
					m.headBelow[req.Shard] = map[int64][]string{}
				}
				m.headBelow[req.Shard][req.Term] = append(m.headBelow[req.Shard][req.Term],
					fmt.Sprintf("%s answered NewTerm with head offset %d although the state it holds is committed up to offset %d, its log having been emptied by a snapshot install, so what it holds did not count when the leader was chosen", node, res.HeadEntryId.Offset, held))
				m.c.r.Count("newterm_head_below_commit", 1)
			}
		}
		if prev, ok := m.ntPreTerm[t.CallID]; ok && prev >= req.Term {
			// a repeated NewTerm for the term the node is already in (coordinator retry): the
			// node is not being fenced away from an older term, and appends of that same term
			// that were already queued on the stream may legitimately follow
			m.c.r.Count("fence_same_term_repeats", 1)
			return
		}
		if f := m.fences[node][req.Shard]; f != nil && f.term == req.Term && f.inc == sn.EP.Inc {
			// the same, with two NewTerm requests of one term in flight together (an election's
			// straggler retry next to the "rejoin" retry): when the second was delivered the first
			// had not been handled yet, so the sample above still showed the older term
			m.c.r.Count("fence_same_term_repeats", 1)
			return
		}
		end := logEnd(v.Wal)
		m.c.r.Count("fence_replies_checked", 1)
		if end != v.Wal.LastOffset() {
			m.c.r.Count("fence_with_unsynced_tail", 1)
		}
		// C04 (i): the reported head is exactly the end of the log
		if res.HeadEntryId.Offset != end {
			m.fail("C04", "fence-head-not-log-end", "node %s answered NewTerm(shard %d, term %d) with head offset %d but its log ends at offset %d (last synced %d)",
				node, req.Shard, req.Term, res.HeadEntryId.Offset, end, v.Wal.LastOffset())
		}
		if m.fences[node] == nil {
			m.fences[node] = map[int64]*fenceInfo{}
		}
		m.fences[node][req.Shard] = &fenceInfo{term: req.Term, headOff: end, reported: res.HeadEntryId, inc: sn.EP.Inc}
	case t.Kind == "data" && !t.ToServer && strings.HasSuffix(t.Method, "/Replicate"):
		// an Ack leaving follower t.Src towards leader t.Dst
		ack := &proto.Ack{}
		if pb.Unmarshal(t.Payload, ack) != nil {
			return
		}
		m.checkAck(t, ack)
	}
}

// checkAck: C03 (the acked entry is stored, synced, and identical to the leader's) and
// C04 (iii) (no ack on behalf of a term older than the node's fence).
func (m *monitors) checkAck(t *TapMsg, ack *proto.Ack) {
	follower, leader := t.Src, t.Dst
	shard := m.streamShard[t.StreamID]
	sterm := m.streamTerm[t.StreamID]
	if f := m.fences[follower][shard]; f != nil && sterm >= 0 && sterm < f.term {
		if sn := m.c.w.Node(follower); sn != nil && sn.EP.Inc == f.inc {
			m.fail("C04", "ack-in-older-term", "node %s acknowledged offset %d on a replication stream of term %d after it had answered NewTerm for term %d", follower, ack.Offset, sterm, f.term)
			return
		}
	}
	fn, ln := m.c.w.Node(follower), m.c.w.Node(leader)
	if fn == nil || ln == nil || fn.EP.Dead() || ln.EP.Dead() || fn.Server == nil || ln.Server == nil {
		return
	}
	fv, ok1 := fn.Server.SimShardView(shard)
	lv, ok2 := ln.Server.SimShardView(shard)
	if ok1 && ok2 && fv.Wal != nil && lv.Wal != nil {
		// evidence for later: this follower acknowledged, to the node that sent it, an entry which
		// that node holds identically (whatever has happened to that node's term since)
		a, errA := readLog(fv.Wal, ack.Offset-1)
		b, errB := readLog(lv.Wal, ack.Offset-1)
		if errA == nil && errB == nil && len(a) > 0 && len(b) > 0 && a[0].Offset == ack.Offset && b[0].Offset == ack.Offset &&
			a[0].Term == b[0].Term && string(a[0].Value) == string(b[0].Value) {
			m.ackedOK[fmt.Sprintf("%s/%d/%d/t%d", follower, shard, ack.Offset, a[0].Term)] = true
			// an entry that the sender and enough followers hold durably is committed in effect, whether
			// or not the sender has processed the acknowledgements yet: it goes into the commit ledger
			k := fmt.Sprintf("%d/%d/t%d", shard, ack.Offset, a[0].Term)
			if m.ackers[k] == nil {
				m.ackers[k] = map[string]bool{}
			}
			m.ackers[k][follower] = true
			if len(m.ackers[k])+1 >= int(m.c.o.RF)/2+1 && sterm >= 0 {
				if m.ledger[shard] == nil {
					m.ledger[shard] = map[int64]commitRec{}
				}
				if _, ok := m.ledger[shard][ack.Offset]; !ok {
					m.ledger[shard][ack.Offset] = commitRec{term: a[0].Term, inTerm: sterm, by: fmt.Sprintf("%s together with its leader %s (acknowledged by a quorum)", follower, leader)}
				}
			}
		}
	}
	if !ok1 || !ok2 || fv.Wal == nil || lv.Wal == nil || !lv.IsLeader || lv.Term != sterm {
		return
	}
	m.ackChecks++
	m.c.r.Count("acks_checked", 1)
	if ack.Offset > fv.Wal.LastOffset() && ack.Offset > fv.CommitOffset {
		// (a follower restored from a snapshot holds offsets <= its commit offset in the DB, not in the WAL)
		m.fail("C03", "ack-before-sync", "follower %s acknowledged offset %d to leader %s (term %d) but its synced log ends at %d (appended up to %d, applied commit offset %d)",
			follower, ack.Offset, leader, sterm, fv.Wal.LastOffset(), wal.SimLastAppended(fv.Wal), fv.CommitOffset)
		return
	}
	// compare the acked entry, and every so often the whole prefix
	from := ack.Offset - 1
	if m.ackChecks%16 == 0 {
		from = -1
	}
	if msg := compareLogs(lv.Wal, fv.Wal, from, ack.Offset); msg != "" {
		m.fail("C03", "acked-entry-differs", "follower %s acknowledged offset %d to leader %s (term %d) but %s; leader log terms %s; follower log terms %s (follower head=%d synced=%d appended=%d)",
			follower, ack.Offset, leader, sterm, msg, termsOf(lv.Wal), termsOf(fv.Wal), fv.HeadOffset, fv.Wal.LastOffset(), wal.SimLastAppended(fv.Wal))
	}
}

// logEnd is the offset of the last entry the log holds (appended, synced or not); -1 for a log without
// entries, also when it is merely positioned: a re-opened segment created for offset N whose first entry
// was lost in a power cut reports last = N-1 and first = N.
func logEnd(w wal.Wal) int64 {
	end := wal.SimLastAppended(w)
	if fo := w.FirstOffset(); fo == wal.InvalidOffset || fo > end {
		return wal.InvalidOffset
	}
	return end
}

// compareLogs compares entries (after, upTo] of two logs, where both have them.
func compareLogs(a, b wal.Wal, after, upTo int64) string {
	lo := after
	if f := a.FirstOffset() - 1; f > lo {
		lo = f
	}
	if f := b.FirstOffset() - 1; f > lo {
		lo = f
	}
	if lo >= upTo {
		return ""
	}
	ra, err := a.NewReader(lo)
	if err != nil {
		return ""
	}
	defer ra.Close()
	rb, err := b.NewReader(lo)
	if err != nil {
		return ""
	}
	defer rb.Close()
	for o := lo + 1; o <= upTo; o++ {
		if !ra.HasNext() || !rb.HasNext() {
			return ""
		}
		ea, err1 := ra.ReadNext()
		eb, err2 := rb.ReadNext()
		if err1 != nil || err2 != nil {
			return ""
		}
		if ea.Offset != eb.Offset || ea.Term != eb.Term || string(ea.Value) != string(eb.Value) {
			return fmt.Sprintf("their logs differ at offset %d: (term %d, %d bytes) vs (term %d, %d bytes)", o, ea.Term, len(ea.Value), eb.Term, len(eb.Value))
		}
	}
	return ""
}

// checkBecomeLeader: C05 (e).  mu held.
func (m *monitors) checkBecomeLeader(dst string, req *proto.BecomeLeaderRequest, resp map[string]*proto.EntryId) {
	sm, ok := m.storedMeta[req.Shard]
	if !ok {
		return
	}
	m.c.r.Count("become_leader_checked", 1)
	ens := map[string]bool{}
	for _, s := range sm.Ensemble {
		ens[nodeOfAddr(s.GetIdentifier())] = true
	}
	if resp == nil {
		resp = m.ntResp[req.Shard][req.Term]
	}
	fenced := 0
	for n := range resp {
		if ens[n] {
			fenced++
		}
	}
	if len(sm.RemovedNodes) > 0 {
		m.c.r.Count("election_with_removed_nodes", 1)
	}
	{
		// for the record (quoted by the containment oracle): the fencing set oxia uses during a swap
		// is ensemble + removed nodes
		all := map[string]bool{}
		for n := range ens {
			all[n] = true
		}
		for _, x := range sm.RemovedNodes {
			all[nodeOfAddr(x.GetIdentifier())] = true
		}
		answered := 0
		for n := range resp {
			if all[n] {
				answered++
			}
		}
		verdict := "a majority"
		if answered < len(all)/2+1 {
			verdict = "NOT a majority"
		}
		if m.electionNote[req.Shard] == nil {
			m.electionNote[req.Shard] = map[int64]string{}
		}
		twice := ""
		seenRemoved := map[string]bool{}
		for _, x := range sm.RemovedNodes {
			n := nodeOfAddr(x.GetIdentifier())
			if ens[n] || seenRemoved[n] {
				twice = fmt.Sprintf("; %s is listed more than once among ensemble and removed nodes, so its answer is counted twice", n)
			}
			seenRemoved[n] = true
		}
		below := ""
		for _, x := range m.headBelow[req.Shard][req.Term] {
			below += "; " + x
		}
		if lh := resp[dst]; lh != nil && len(sm.RemovedNodes) > 0 && lh.Offset >= 0 {
			// a swap election: once it succeeds the removed nodes' replicas are deleted.  How many of the
			// members that answered hold what the chosen leader holds?
			holders := 1
			for n := range ens {
				if h := resp[n]; n != dst && h != nil && (h.Term > lh.Term || (h.Term == lh.Term && h.Offset >= lh.Offset)) {
					holders++
				}
			}
			if holders < len(ens)/2+1 {
				below += fmt.Sprintf("; the removed nodes' replicas are deleted after this election although only %d of the %d members of the new ensemble are known to hold the log up to %d/%d, the others have yet to catch up", holders, len(ens), lh.Term, lh.Offset)
			}
		}
		if lh := resp[dst]; lh != nil {
			for _, x := range sm.RemovedNodes {
				n := nodeOfAddr(x.GetIdentifier())
				if h := resp[n]; h != nil && !ens[n] && (h.Term > lh.Term || (h.Term == lh.Term && h.Offset > lh.Offset)) {
					below += fmt.Sprintf("; removed node %s had answered with head %d/%d, above the head %d/%d of the chosen leader %s, and was ignored", n, h.Term, h.Offset, lh.Term, lh.Offset, dst)
				}
			}
		}
		m.electionNote[req.Shard][req.Term] = fmt.Sprintf("when BecomeLeader(term %d) was sent, %d of the %d ensemble+removed nodes had answered NewTerm: %s%s%s", req.Term, answered, len(all), verdict, twice, below)
	}
	raw := func(l []model.Server) string {
		var out []string
		for _, x := range l {
			out = append(out, nodeOfAddr(x.GetIdentifier()))
		}
		return "[" + strings.Join(out, " ") + "]"
	}
	desc := fmt.Sprintf("stored ensemble %s removed %s", raw(sm.Ensemble), raw(sm.RemovedNodes))
	if len(ens) != len(sm.Ensemble) {
		m.fail("C19", "ensemble-duplicate-member", "shard %d term %d: %s (a server appears twice in the ensemble)", req.Shard, req.Term, desc)
		return
	}
	if fenced < len(ens)/2+1 {
		m.fail("C05", "leader-without-fenced-majority", "BecomeLeader(shard %d, term %d) sent to %s after only %d of the %d ensemble members %v had answered NewTerm in that term (responders: %v)",
			req.Shard, req.Term, dst, fenced, len(ens), keysOf(ens), keysOfE(resp)+" "+desc)
		return
	}
	if !ens[dst] {
		m.fail("C05", "leader-outside-ensemble", "BecomeLeader(shard %d, term %d) sent to %s which is not in the ensemble being installed: %s", req.Shard, req.Term, dst, desc)
		return
	}
	lh, ok := resp[dst]
	if !ok {
		m.fail("C05", "leader-not-a-responder", "BecomeLeader(shard %d, term %d) sent to %s which had not answered NewTerm in that term", req.Shard, req.Term, dst)
		return
	}
	for n, h := range resp {
		if !ens[n] || n == dst {
			continue
		}
		if h.Term > lh.Term || (h.Term == lh.Term && h.Offset > lh.Offset) {
			m.fail("C05", "leader-not-best-log", "BecomeLeader(shard %d, term %d) sent to %s with head (%d,%d) although fenced ensemble member %s reported a larger head (%d,%d)",
				req.Shard, req.Term, dst, lh.Term, lh.Offset, n, h.Term, h.Offset)
			return
		}
	}
}

func keysOf(m map[string]bool) []string {
	var ks []string
	for k := range m {
		ks = append(ks, k)
	}
	sort.Strings(ks)
	return ks
}
func keysOfE(m map[string]*proto.EntryId) string {
	var ks []string
	for k := range m {
		ks = append(ks, k)
	}
	sort.Strings(ks)
	return "[" + strings.Join(ks, " ") + "]"
}

// ---------------------------------------------------------------- quiescent-point sampling

func (m *monitors) noteCrash(node string) {
	m.mu.Lock()
	delete(m.fences, node)
	m.mu.Unlock()
}

func (m *monitors) noteClientOp(op *histOp) {}

func (m *monitors) currentLeader(shard int64) string {
	best, bt := "", int64(-1)
	for n, v := range m.c.w.ShardViews(shard) {
		if v.IsLeader && v.Status == int32(proto.ServingStatus_LEADER) && v.Term > bt {
			best, bt = n, v.Term
		}
	}
	return best
}

func (m *monitors) describeShard(shard int64) string {
	var parts []string
	views := m.c.w.ShardViews(shard)
	var names []string
	for n := range views {
		names = append(names, n)
	}
	sort.Strings(names)
	for _, n := range names {
		v := views[n]
		last := int64(-9)
		if v.Wal != nil {
			last = v.Wal.LastOffset()
		}
		parts = append(parts, fmt.Sprintf("%s{leader=%v term=%d status=%d head=%d commit=%d wal-last=%d}", n, v.IsLeader, v.Term, v.Status, v.HeadOffset, v.CommitOffset, last))
	}
	m.mu.Lock()
	sm := m.storedMeta[shard]
	m.mu.Unlock()
	l := "<nil>"
	if sm.Leader != nil {
		l = nodeOfAddr(sm.Leader.GetIdentifier())
	}
	return fmt.Sprintf("%s; stored: term=%d status=%v leader=%s", strings.Join(parts, " "), sm.Term, sm.Status, l)
}

func (m *monitors) allCaughtUp() bool {
	for s := int64(0); s < int64(m.c.o.Shards); s++ {
		views := m.c.w.ShardViews(s)
		var head int64 = -2
		for _, v := range views {
			if v.IsLeader && v.Status == int32(proto.ServingStatus_LEADER) {
				head = v.HeadOffset
			}
		}
		if head == -2 {
			return false
		}
		n := 0
		for _, v := range views {
			if !v.IsLeader && v.HeadOffset >= head {
				n++
			}
		}
		if n < int(m.c.o.RF)-1 {
			return false
		}
	}
	return true
}

func (m *monitors) afterEvent() {
	m.mu.Lock()
	defer m.mu.Unlock()
	m.events++
	w := m.c.w
	for s := int64(0); s < int64(m.c.o.Shards); s++ {
		views := w.ShardViews(s)
		m.ledgerStep(s, views)
		// C03: what a follower applies as committed is what the leader of its term holds at that offset
		var leadV *shardView
		leadN := ""
		for name, v := range views {
			if v.IsLeader && v.Status == int32(proto.ServingStatus_LEADER) && (leadV == nil || v.Term > leadV.Term) {
				leadV, leadN = v, name
			}
		}
		for name, v := range views {
			if v.IsLeader || v.Wal == nil {
				continue
			}
			key := fmt.Sprintf("%s/%d", name, s)
			inc := 0
			if sn := w.Node(name); sn != nil {
				inc = sn.EP.Inc
			}
			prevA, seen := m.appliedSeen[key]
			if !seen || prevA.inc != inc || v.CommitOffset < prevA.off {
				m.appliedSeen[key] = appliedMark{inc, v.CommitOffset}
				continue
			}
			if v.CommitOffset == prevA.off {
				continue
			}
			m.appliedSeen[key] = appliedMark{inc, v.CommitOffset}
			if leadV == nil || leadV.Wal == nil || leadV.Term != v.Term || v.Status != int32(proto.ServingStatus_FOLLOWER) {
				continue
			}
			if msg := compareLogs(leadV.Wal, v.Wal, prevA.off, v.CommitOffset); msg != "" {
				m.fail("C03", "follower-applied-divergent-entry", "follower %s applied shard %d offsets %d..%d as committed in term %d, but against leader %s %s; follower log %s, leader log %s",
					name, s, prevA.off+1, v.CommitOffset, v.Term, leadN, msg, termsOf(v.Wal), termsOf(leadV.Wal))
			}
			m.c.r.Count("follower_apply_rounds_checked", 1)
		}
		for name, v := range views {
			// (c) node terms never decrease, also across restarts
			if m.nodeTerm[name] == nil {
				m.nodeTerm[name] = map[int64]int64{}
			}
			if prev, ok := m.nodeTerm[name][s]; ok && v.Term < prev {
				if m.deleted[name][s] {
					// the replica was deleted on the coordinator's request and re-created from scratch
					// (empty, or straight into the term of a late NewTerm request)
					delete(m.deleted[name], s)
				} else if sid, pend := m.snapPending[name][s]; pend && v.Term == -1 {
					m.fail("C05", "node-term-decreased", "node %s shard %d: term went from %d to %d after a snapshot install that never completed (stream %s: the follower wipes its DB, and the term with it, before the new DB is in place)", name, s, prev, v.Term, sid)
					delete(m.snapPending[name], s)
				} else {
					m.fail("C05", "node-term-decreased", "node %s shard %d: term went from %d to %d", name, s, prev, v.Term)
				}
				m.nodeTerm[name][s] = v.Term
			} else if !ok || v.Term > prev {
				m.nodeTerm[name][s] = v.Term
			}
			// (d) at most one leader per term
			if v.IsLeader && v.Status == int32(proto.ServingStatus_LEADER) {
				if m.leadersSeen[s] == nil {
					m.leadersSeen[s] = map[int64]string{}
				}
				if other, ok := m.leadersSeen[s][v.Term]; ok && other != name {
					m.fail("C05", "two-leaders-one-term", "shard %d term %d: both %s and %s have been in LEADER status", s, v.Term, other, name)
				}
				m.leadersSeen[s][v.Term] = name
				key := fmt.Sprintf("%s/%d/%d", name, s, v.Term)
				if !m.checkedLeaders[key] {
					m.checkedLeaders[key] = true
					m.c.r.Count("leaders_installed", 1)
					m.checkContainment(s, name, v, "when it became leader")
					if m.hunted[s] < m.c.o.LeaderHunt {
						m.hunted[s]++
						m.c.huntLeader(name, s, v.Term)
					}
				}
			}
			// C04 (ii): a fenced node's log does not grow until a term >= T touches it
			if f := m.fences[name][s]; f != nil && !f.cleared && v.Wal != nil {
				if sn := w.Node(name); sn != nil && sn.EP.Inc == f.inc {
					if end := logEnd(v.Wal); end > f.headOff {
						m.fail("C04", "log-grew-after-fence", "node %s shard %d: log end moved from %d to %d after it answered NewTerm(term %d) with head %d, without any append/truncate/snapshot of a term >= %d",
							name, s, f.headOff, end, f.term, f.reported.Offset, f.term)
						f.cleared = true
					}
				}
			}
		}
	}
}

func (m *monitors) replacedAtElection(name string, s int64, v *shardView, off, term int64, rec commitRec) {
	why := ""
	if rec.term < term && term < rec.inTerm {
		why = "; an entry of an older term that a later leader committed by replication alone is replaced by a never-committed entry of a term in between (the new leader won on its higher head term)"
	}
	note := ""
	if x := m.electionNote[s][v.Term]; x != "" {
		note = " (" + x + ")"
	}
	m.fail("C03", "committed-entry-replaced-at-election", "%s, installed as leader of shard %d in term %d, holds at offset %d an entry of term %d, but %s had applied an entry of term %d at that offset as committed while in term %d%s; leader log %s%s",
		name, s, v.Term, off, term, rec.by, rec.term, rec.inTerm, why, termsOf(v.Wal), note+m.electionFactsLocked(s, v.Term))
}

// appliedOffset reads the commit offset a node's DB has stored (-1 when it cannot be read right now).
func appliedOffset(v *shardView) (off int64) {
	off = wal.InvalidOffset
	if v.DB == nil {
		return
	}
	defer func() {
		if recover() != nil {
			off = wal.InvalidOffset
		}
	}()
	if o, err := v.DB.ReadCommitOffset(); err == nil {
		off = o
	}
	return
}

type commitRec struct {
	term, inTerm int64
	by           string
}

// ledgerStep keeps a shard-wide ledger of what any node has applied as committed (offset -> term of the
// entry, and the term the node was in when it did) and checks against it (C03: "any two replicas agree on
// every entry at or below either one's commit offset"):
//   - a node applies, as committed, an entry that differs from the ledger's          -> conflicting-commit
//   - a node is installed as leader with a log that differs from the ledger (checked before that leader's
//     own commits enter the ledger, so that the election is named, not its consequences)
//                                                                                      -> committed-entry-replaced-at-election
// mu held.
func (m *monitors) ledgerStep(s int64, views map[string]*shardView) {
	if m.ledger[s] == nil {
		m.ledger[s] = map[int64]commitRec{}
	}
	led := m.ledger[s]
	var names []string
	for n := range views {
		names = append(names, n)
	}
	sort.Strings(names)
	for _, name := range names {
		v := views[name]
		if v.Wal == nil || !v.IsLeader || v.Status != int32(proto.ServingStatus_LEADER) {
			continue
		}
		key := fmt.Sprintf("%s/%d/%d", name, s, v.Term)
		if m.ledgerLeaders[key] {
			continue
		}
		m.ledgerLeaders[key] = true
		m.c.r.Count("leader_logs_checked_against_commit_ledger", 1)
		ents, err := readLog(v.Wal, -1)
		if err != nil {
			continue
		}
		for _, e := range ents {
			rec, ok := led[e.Offset]
			if !ok || rec.term == e.Term {
				continue
			}
			m.replacedAtElection(name, s, v, e.Offset, e.Term, rec)
			return
		}
	}
	for _, name := range names {
		v := views[name]
		if v.Wal == nil {
			continue
		}
		if v.IsLeader {
			// a leader's view carries its quorum commit offset; what its DB has applied counts as well
			if a := appliedOffset(v); a > v.CommitOffset {
				vv := *v
				vv.CommitOffset = a
				v = &vv
				m.c.r.Count("leader_controller_db_offset_used", 1)
			}
		}
		if v.CommitOffset < 0 {
			continue
		}
		key := fmt.Sprintf("%s/%d", name, s)
		inc := 0
		if sn := m.c.w.Node(name); sn != nil {
			inc = sn.EP.Inc
		}
		from := int64(-1)
		if prev, seen := m.ledgerSeen[key]; seen && prev.inc == inc && v.CommitOffset >= prev.off {
			from = prev.off
		}
		if v.CommitOffset == from {
			continue
		}
		m.ledgerSeen[key] = appliedMark{inc, v.CommitOffset}
		ents, err := readLog(v.Wal, from)
		if err != nil {
			continue
		}
		var fresh *proto.LogEntry // the highest entry this node is the first to apply as committed
		for _, e := range ents {
			if e.Offset > v.CommitOffset {
				break
			}
			rec, ok := led[e.Offset]
			if !ok {
				led[e.Offset] = commitRec{term: e.Term, inTerm: v.Term, by: name}
				fresh = e
				continue
			}
			if rec.term != e.Term && v.IsLeader {
				// a leader that commits its own (older) entries while BecomeLeader is still running
				m.replacedAtElection(name, s, v, e.Offset, e.Term, rec)
				return
			}
			if rec.term != e.Term {
				m.fail("C03", "conflicting-commit", "%s has applied offset %d of shard %d as committed with an entry of term %d (while in term %d), but %s had applied an entry of term %d at that offset as committed while in term %d; log of %s: %s%s",
					name, e.Offset, s, e.Term, v.Term, rec.by, rec.term, rec.inTerm, name, termsOf(v.Wal), m.electionFactsLocked(s, -1))
				return
			}
		}
		m.c.r.Count("commit_ledger_rounds", 1)
		if fresh != nil {
			// committed means held by a majority: the first node to apply an entry finds it in the logs (or
			// the applied state) of a majority of the replicas.  Nodes that cannot be looked at right now
			// (down, restarting, replica deleted) count as holders.
			holders, lacking := 0, []string{}
			for _, other := range m.c.cl.NodeNames {
				ov := views[other]
				if ov == nil || ov.Wal == nil {
					holders++
					continue
				}
				if ov.CommitOffset >= fresh.Offset && other != name {
					holders++
					continue
				}
				has := false
				if logEnd(ov.Wal) >= fresh.Offset && ov.Wal.FirstOffset() <= fresh.Offset {
					if es, err := readLog(ov.Wal, fresh.Offset-1); err == nil && len(es) > 0 && es[0].Offset == fresh.Offset && es[0].Term == fresh.Term {
						has = true
					}
				}
				if has {
					holders++
				} else {
					lacking = append(lacking, fmt.Sprintf("%s(log %s)", other, strings.TrimSpace(termsOf(ov.Wal))))
				}
			}
			m.c.r.Count("first_applies_checked_for_quorum", 1)
			if need := int(m.c.o.RF)/2 + 1; holders < need {
				m.fail("C03", "applied-without-quorum", "%s (term %d, leader=%v) applied offset %d (entry of term %d) of shard %d as committed, but only %d of the %d nodes hold that entry or could hold it (a majority of the %d replicas is %d); lacking it: %s; own log %s%s",
					name, v.Term, v.IsLeader, fresh.Offset, fresh.Term, s, holders, len(m.c.cl.NodeNames), m.c.o.RF, need, strings.Join(lacking, ", "), termsOf(v.Wal), m.electionFactsLocked(s, -1))
				return
			}
		}
	}
}

// checkContainment: C01 — every write acknowledged in an older term is in this leader's log.  mu held.
func (m *monitors) checkContainment(shard int64, node string, v *shardView, when string) {
	if v.Wal == nil {
		return
	}
	c := m.c
	c.mu.Lock()
	var acked []*histOp
	for _, op := range c.hist {
		if op.Shard == shard && op.OK && op.Return != 0 && op.Status == proto.Status_OK && (op.Kind == opPut || op.Kind == opCondPut) {
			acked = append(acked, op)
		}
	}
	c.mu.Unlock()
	if len(acked) == 0 {
		return
	}
	ents, err := readLog(v.Wal, -1)
	if err != nil {
		return
	}
	have := map[string]int{}
	for _, e := range ents {
		if ws, err := decodeEntry(e); err == nil {
			for _, w := range ws {
				for _, p := range w.Puts {
					have[string(p.Value)]++
				}
			}
		}
	}
	first := v.Wal.FirstOffset()
	for _, op := range acked {
		at, known := m.tagTerm[op.Tag]
		if !known || at >= v.Term {
			continue // acknowledged in this or a newer term (or term unknown: RF=1 path)
		}
		if have[op.Tag] == 0 && first <= 0 {
			note := m.electionNote[shard][v.Term]
			if note == "" {
				note = "fencing of that election not observed"
			}
			m.fail("C01", "acked-write-missing", "write %s=%s was acknowledged (by %s, log term %d) but is not in the log of %s, leader of shard %d in term %d, %s (%s)%s",
				op.Key, op.Tag, op.Node, at, node, shard, v.Term, when, note, m.electionFactsLocked(shard, v.Term))
			return
		}
		if have[op.Tag] > 1 {
			m.fail("C01", "write-applied-twice", "write %s=%s appears %d times in the log of leader %s", op.Key, op.Tag, have[op.Tag], node)
			return
		}
	}
	m.c.r.Count("containment_checks", 1)
}

func (m *monitors) sig() string {
	m.mu.Lock()
	defer m.mu.Unlock()
	var parts []string
	for s, tm := range m.leadersSeen {
		var ts []int64
		for t := range tm {
			ts = append(ts, t)
		}
		sort.Slice(ts, func(i, j int) bool { return ts[i] < ts[j] })
		for _, t := range ts {
			parts = append(parts, fmt.Sprintf("%d:%d=%s", s, t, tm[t]))
		}
	}
	sort.Strings(parts)
	return strings.Join(parts, ",")
}

// termsOf renders a log as runs of "first-last:term".
func termsOf(w wal.Wal) string {
	ents, err := readLog(w, -1)
	if err != nil && len(ents) == 0 {
		return "unreadable: " + err.Error()
	}
	var sb strings.Builder
	start, prevTerm, prevOff := int64(-1), int64(-99), int64(-1)
	flush := func() {
		if start >= 0 {
			fmt.Fprintf(&sb, "%d-%d:t%d ", start, prevOff, prevTerm)
		}
	}
	for _, e := range ents {
		if e.Term != prevTerm || e.Offset != prevOff+1 {
			flush()
			start = e.Offset
		}
		prevTerm, prevOff = e.Term, e.Offset
	}
	flush()
	return strings.TrimSpace(sb.String())
}
