#!/bin/bash
# usage: tools/confirm_seed.sh <ID> [name]   -- confirms a seeded defect in its scratch worktree and stores it under /verif/seeded/<name>
# (1) demo passes on the clean worktree, (2) demo fails with the patch, (3) the touched packages' existing tests pass with the patch.
set -u
id=$1; name=${2:-$1}
src=/tmp/seeded-out/$id; wt=/tmp/wt-$id
export GOFLAGS=-mod=mod GOPROXY=off
cd $wt || exit 2
git checkout -q -- . ; git clean -fdq
demo=$(ls $src/demo/*.go | head -1)
rel=$(grep -m1 -o 'Intended path inside the repo: [^ ]*' $demo | awk '{print $NF}')
[ -z "$rel" ] && { echo "no intended path"; exit 2; }
pkg=./$(dirname $rel)
run=$(grep -ho '^func Test[A-Za-z0-9_]*' $src/demo/*.go | sed 's/func //' | paste -sd'|')
for f in $src/demo/*.go; do cp $f $(dirname $rel)/; done
echo "== demo on clean tree ($pkg -run '$run')"
go test -vet=off -count=1 -run "^($run)\$" $pkg > /tmp/confirm-$id-clean.log 2>&1; c1=$?
tail -2 /tmp/confirm-$id-clean.log
git apply $src/patch.diff || { echo "patch does not apply"; exit 2; }
echo "== demo with patch"
go test -vet=off -count=1 -run "^($run)\$" $pkg > /tmp/confirm-$id-patched.log 2>&1; c2=$?
tail -3 /tmp/confirm-$id-patched.log
for f in $src/demo/*.go; do rm -f $(dirname $rel)/$(basename $f); done
pk=$(git diff --name-only | xargs -n1 dirname | sort -u | sed 's#^#./#' | paste -sd' ')
echo "== existing tests of touched packages with patch: $pk"
go test -vet=off -count=1 $pk > /tmp/confirm-$id-suite.log 2>&1; c3=$?
tail -3 /tmp/confirm-$id-suite.log
git checkout -q -- . ; git clean -fdq
echo "clean=$c1 patched=$c2 suite=$c3"
if [ $c1 -eq 0 ] && [ $c2 -ne 0 ] && [ $c3 -eq 0 ]; then
  mkdir -p /verif/seeded/$name/demo
  cp $src/patch.diff /verif/seeded/$name/; cp $src/demo/*.go /verif/seeded/$name/demo/
  python3 - "$src" "$name" "$pkg" "$run" "$pk" <<'PY'
import json,sys
src,name,pkg,run,pk=sys.argv[1:6]
m=json.load(open(src+'/meta.json'))
out={"property":m.get("property"),"summary":m.get("summary"),"needs_to_manifest":m.get("needs_to_manifest"),"files_changed":m.get("files_changed"),
 "confirmed_by_me":{"demo_on_clean_tree":"PASS: go test -run '^(%s)$' %s"%(run,pkg),"demo_with_patch":"FAIL (as required)","existing_tests_with_patch":"PASS: go test %s"%pk,
 "author_suite_result":m.get("suite_result")},
 "detected_by":[]}
json.dump(out,open('/verif/seeded/%s/meta.json'%name,'w'),indent=1)
PY
  echo "CONFIRMED -> /verif/seeded/$name"
else
  echo "NOT CONFIRMED"
fi
