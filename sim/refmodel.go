package oxsim

// Executable reference model of one shard's state machine, written from the documented
// semantics (proto comments, property statements) — not transcribed from the
// implementation.  Used as the oracle of C06, C07, C12, C14, C15, C16, C17 and to fold
// committed logs in C01/C02.

import (
	"bytes"
	"fmt"
	"net/url"
	"sort"
	"strings"

	"github.com/oxia-db/oxia/proto"
)

// refCompare is an independent implementation of the hierarchical ('slash') key order:
// keys are compared segment by segment (segments separated by '/'); at the first level
// where they differ, a key that has no further segment sorts before one that has, and
// otherwise the segments are compared bytewise.
func refCompare(a, b string) int {
	as := strings.Split(a, "/")
	bs := strings.Split(b, "/")
	for i := 0; ; i++ {
		aLast := i == len(as)-1
		bLast := i == len(bs)-1
		switch {
		case aLast && bLast:
			return strings.Compare(as[i], bs[i])
		case aLast && !bLast:
			return -1
		case !aLast && bLast:
			return 1
		}
		if c := strings.Compare(as[i], bs[i]); c != 0 {
			return c
		}
	}
}

type idxPair struct{ Index, Secondary string }

type refRecord struct {
	Value          []byte
	Version        int64
	ModCount       int64
	Created        uint64
	Modified       uint64
	Session        *int64
	ClientIdentity *string
	PartitionKey   *string
	Indexes        []idxPair
}

type refNotification struct {
	Type         proto.NotificationType
	Version      *int64
	KeyRangeLast *string
}

type refDB struct {
	Recs         map[string]*refRecord // user keys and session keys (everything written through puts)
	Shadows      map[string]bool       // session shadow keys
	Index        map[string]bool       // secondary index keys
	LastVersion  int64
	CommitOffset int64
	Notifs       map[int64]map[string]refNotification // per offset
	NotifTs      map[int64]uint64
	NotificationsEnabled bool
	Shard        int64
	// bookkeeping for C14/C16 oracles
	LastApplied  *refApplyInfo
}

type refApplyInfo struct {
	Offset      int64
	DeletedKeys []string // user keys removed by this entry (explicit deletes + range deletes)
	ClosedSessions []int64 // sessions whose session key was deleted by this entry
	OwnedBefore map[int64][]string // for each closed session: keys it owned right before the entry
	GeneratedKeys []string
}

const internalPrefix = "__oxia/"

func newRefDB(shard int64) *refDB {
	return &refDB{Recs: map[string]*refRecord{}, Shadows: map[string]bool{}, Index: map[string]bool{}, LastVersion: -1, CommitOffset: -1,
		Notifs: map[int64]map[string]refNotification{}, NotifTs: map[int64]uint64{}, NotificationsEnabled: true, Shard: shard}
}

func refSessionKey(id int64) string { return fmt.Sprintf("%ssession/%016x", internalPrefix, id) }
func refShadowKey(id int64, key string) string {
	return fmt.Sprintf("%ssession/%016x/%s", internalPrefix, id, url.PathEscape(key))
}
func refIndexKey(p idxPair, primary string) string {
	return fmt.Sprintf("%sidx/%s/%s\x01%s", internalPrefix, p.Index, p.Secondary, url.PathEscape(primary))
}

func (d *refDB) sortedKeys() []string {
	ks := make([]string, 0, len(d.Recs))
	for k := range d.Recs {
		ks = append(ks, k)
	}
	sort.Slice(ks, func(i, j int) bool { return refCompare(ks[i], ks[j]) < 0 })
	return ks
}

func (d *refDB) ownedBy(sess int64) []string {
	var ks []string
	for k, r := range d.Recs {
		if r.Session != nil && *r.Session == sess {
			ks = append(ks, k)
		}
	}
	sort.Strings(ks)
	return ks
}

func (d *refDB) removeDerived(key string, r *refRecord) {
	if r.Session != nil {
		delete(d.Shadows, refShadowKey(*r.Session, key))
	}
	for _, p := range r.Indexes {
		delete(d.Index, refIndexKey(p, key))
	}
}

// highestWithPrefix returns the highest key (hierarchical order) strictly below
// prefix-<max uint64, 20 digits> over every key kind in the flat key space.
func (d *refDB) allKeys() []string {
	ks := make([]string, 0, len(d.Recs)+len(d.Shadows)+len(d.Index))
	for k := range d.Recs {
		ks = append(ks, k)
	}
	for k := range d.Shadows {
		ks = append(ks, k)
	}
	for k := range d.Index {
		ks = append(ks, k)
	}
	return ks
}

// refPutOutcome describes the expectation for one put.
type refPutOutcome struct {
	Status  proto.Status
	Version *refRecord
	Key     string // final key
	Generated bool
	Unspecified bool // request is malformed: any per-operation status is acceptable, no effect
}

// seqParts parses "-%020d" groups following the prefix.
func seqSuffixes(prefix, key string) ([]uint64, bool) {
	if !strings.HasPrefix(key, prefix) {
		return nil, false
	}
	rest := key[len(prefix):]
	if rest == "" {
		return nil, true
	}
	parts := strings.Split(rest, "-")
	if parts[0] != "" {
		return nil, false
	}
	var out []uint64
	for _, p := range parts[1:] {
		if len(p) != 20 {
			return nil, false
		}
		var v uint64
		for _, c := range p {
			if c < '0' || c > '9' {
				return nil, false
			}
			v = v*10 + uint64(c-'0')
		}
		out = append(out, v)
	}
	return out, true
}

// Apply folds one committed write request at (offset, timestamp) and returns the expected response.
func (d *refDB) Apply(req *proto.WriteRequest, offset int64, ts uint64) (*proto.WriteResponse, []refPutOutcome) {
	res := &proto.WriteResponse{}
	info := &refApplyInfo{Offset: offset, OwnedBefore: map[int64][]string{}}
	// ownership snapshot for sessions whose key is deleted in this entry
	for _, del := range req.Deletes {
		if strings.HasPrefix(del.Key, internalPrefix+"session/") && strings.Count(del.Key, "/") == 2 {
			var id int64
			if _, err := fmt.Sscanf(del.Key, internalPrefix+"session/%016x", &id); err == nil {
				if _, ok := d.Recs[del.Key]; ok {
					info.OwnedBefore[id] = d.ownedBy(id)
					info.ClosedSessions = append(info.ClosedSessions, id)
				}
			}
		}
	}
	var notifs map[string]refNotification
	if d.NotificationsEnabled {
		notifs = map[string]refNotification{}
	}
	note := func(key string, n refNotification) {
		if notifs == nil || strings.HasPrefix(key, internalPrefix) {
			return
		}
		notifs[key] = n
	}
	var outcomes []refPutOutcome
	for _, p := range req.Puts {
		o := d.applyPut(p, ts, note)
		outcomes = append(outcomes, o)
		pr := &proto.PutResponse{Status: o.Status}
		if o.Status == proto.Status_OK && o.Version != nil {
			pr.Version = refVersionProto(o.Version)
			if o.Generated {
				k := o.Key
				pr.Key = &k
				info.GeneratedKeys = append(info.GeneratedKeys, k)
			}
		}
		res.Puts = append(res.Puts, pr)
	}
	for _, del := range req.Deletes {
		r, ok := d.Recs[del.Key]
		switch {
		case !ok && (del.ExpectedVersionId == nil || *del.ExpectedVersionId == -1):
			res.Deletes = append(res.Deletes, &proto.DeleteResponse{Status: proto.Status_KEY_NOT_FOUND})
		case !ok:
			res.Deletes = append(res.Deletes, &proto.DeleteResponse{Status: proto.Status_UNEXPECTED_VERSION_ID})
		case del.ExpectedVersionId != nil && *del.ExpectedVersionId != r.Version:
			res.Deletes = append(res.Deletes, &proto.DeleteResponse{Status: proto.Status_UNEXPECTED_VERSION_ID})
		default:
			d.removeDerived(del.Key, r)
			delete(d.Recs, del.Key)
			note(del.Key, refNotification{Type: proto.NotificationType_KEY_DELETED})
			if !strings.HasPrefix(del.Key, internalPrefix) {
				info.DeletedKeys = append(info.DeletedKeys, del.Key)
			}
			res.Deletes = append(res.Deletes, &proto.DeleteResponse{Status: proto.Status_OK})
		}
	}
	for _, dr := range req.DeleteRanges {
		end := dr.EndExclusive
		if !strings.HasPrefix(dr.StartInclusive, internalPrefix) && notifs != nil {
			e := end
			notifs[dr.StartInclusive] = refNotification{Type: proto.NotificationType_KEY_RANGE_DELETED, KeyRangeLast: &e}
		}
		in := func(k string) bool {
			return refCompare(k, dr.StartInclusive) >= 0 && refCompare(k, end) < 0
		}
		for _, k := range d.sortedKeys() {
			if in(k) {
				r := d.Recs[k]
				d.removeDerived(k, r)
				delete(d.Recs, k)
				if !strings.HasPrefix(k, internalPrefix) {
					info.DeletedKeys = append(info.DeletedKeys, k)
				}
			}
		}
		for k := range d.Shadows {
			if in(k) {
				delete(d.Shadows, k)
			}
		}
		for k := range d.Index {
			if in(k) {
				delete(d.Index, k)
			}
		}
		res.DeleteRanges = append(res.DeleteRanges, &proto.DeleteRangeResponse{Status: proto.Status_OK})
	}
	d.CommitOffset = offset
	if notifs != nil {
		d.Notifs[offset] = notifs
		d.NotifTs[offset] = ts
	}
	d.LastApplied = info
	return res, outcomes
}

func refVersionProto(r *refRecord) *proto.Version {
	return &proto.Version{VersionId: r.Version, ModificationsCount: r.ModCount, CreatedTimestamp: r.Created, ModifiedTimestamp: r.Modified,
		SessionId: r.Session, ClientIdentity: r.ClientIdentity}
}

func (d *refDB) applyPut(p *proto.PutRequest, ts uint64, note func(string, refNotification)) refPutOutcome {
	key := p.Key
	generated := false
	if len(p.SequenceKeyDelta) > 0 {
		// malformed sequence puts: outcome unspecified beyond "a per-operation status, no effect"
		if p.PartitionKey == nil || p.ExpectedVersionId != nil || p.SequenceKeyDelta[0] == 0 {
			return refPutOutcome{Unspecified: true}
		}
		// highest existing key of the prefix, in the flat key space
		maxKey := fmt.Sprintf("%s-%020d", p.Key, uint64(18446744073709551615))
		best := ""
		for _, k := range d.allKeys() {
			if refCompare(k, maxKey) < 0 && (best == "" || refCompare(k, best) > 0) {
				best = k
			}
		}
		var parts []uint64
		if best != "" && strings.HasPrefix(best, p.Key) {
			ps, ok := seqSuffixes(p.Key, best)
			if !ok {
				return refPutOutcome{Unspecified: true}
			}
			parts = ps
		}
		if len(parts) > len(p.SequenceKeyDelta) {
			return refPutOutcome{Unspecified: true}
		}
		for i, dl := range p.SequenceKeyDelta {
			var last uint64
			if i < len(parts) {
				last = parts[i]
			}
			key = fmt.Sprintf("%s-%020d", key, last+dl)
		}
		generated = true
	}
	existing, ok := d.Recs[key]
	if !generated {
		switch {
		case !ok && p.ExpectedVersionId != nil && *p.ExpectedVersionId != -1:
			return refPutOutcome{Status: proto.Status_UNEXPECTED_VERSION_ID}
		case ok && p.ExpectedVersionId != nil && *p.ExpectedVersionId != existing.Version:
			return refPutOutcome{Status: proto.Status_UNEXPECTED_VERSION_ID}
		}
	}
	if p.SessionId != nil {
		if _, alive := d.Recs[refSessionKey(*p.SessionId)]; !alive {
			return refPutOutcome{Status: proto.Status_SESSION_DOES_NOT_EXIST}
		}
	}
	d.LastVersion++
	r := &refRecord{Value: append([]byte(nil), p.Value...), Version: d.LastVersion, Created: ts, Modified: ts,
		Session: p.SessionId, ClientIdentity: p.ClientIdentity, PartitionKey: p.PartitionKey}
	if ok {
		d.removeDerived(key, existing)
		r.ModCount = existing.ModCount + 1
		r.Created = existing.Created
	}
	for _, si := range p.SecondaryIndexes {
		r.Indexes = append(r.Indexes, idxPair{si.IndexName, si.SecondaryKey})
	}
	d.Recs[key] = r
	if r.Session != nil {
		d.Shadows[refShadowKey(*r.Session, key)] = true
	}
	for _, ip := range r.Indexes {
		d.Index[refIndexKey(ip, key)] = true
	}
	t := proto.NotificationType_KEY_CREATED
	if r.ModCount > 0 {
		t = proto.NotificationType_KEY_MODIFIED
	}
	v := r.Version
	note(key, refNotification{Type: t, Version: &v})
	return refPutOutcome{Status: proto.Status_OK, Version: r, Key: key, Generated: generated}
}

// ---------------------------------------------------------------- comparing with a real DB dump

type dumpEntry struct {
	Key   string
	Value []byte // raw stored bytes
}

// describe renders a record for messages.
func (r *refRecord) String() string {
	s := fmt.Sprintf("v=%d mc=%d ct=%d mt=%d len=%d", r.Version, r.ModCount, r.Created, r.Modified, len(r.Value))
	if r.Session != nil {
		s += fmt.Sprintf(" sess=%d", *r.Session)
	}
	return s
}

func eqI64p(a, b *int64) bool { return (a == nil) == (b == nil) && (a == nil || *a == *b) }
func eqStrp(a, b *string) bool { return (a == nil) == (b == nil) && (a == nil || *a == *b) }

// compareDump checks a full DB dump (ordered as returned by the engine) against the model.
// Returns "" when equal, else a description of the first difference.
func (d *refDB) compareDump(dump []dumpEntry, checkNotifs bool) string {
	seen := map[string]bool{}
	prev := ""
	for i, e := range dump {
		if i > 0 && refCompare(prev, e.Key) >= 0 {
			return fmt.Sprintf("engine iteration order violates the key order: %q before %q", prev, e.Key)
		}
		prev = e.Key
		switch {
		case e.Key == internalPrefix+"commit-offset":
			se := &proto.StorageEntry{}
			if err := se.UnmarshalVT(e.Value); err != nil {
				return "commit-offset entry undecodable"
			}
			if string(se.Value) != fmt.Sprint(d.CommitOffset) {
				return fmt.Sprintf("stored commit offset %s, model %d", se.Value, d.CommitOffset)
			}
		case e.Key == internalPrefix+"last-version-id":
			se := &proto.StorageEntry{}
			if err := se.UnmarshalVT(e.Value); err != nil {
				return "last-version-id entry undecodable"
			}
			if string(se.Value) != fmt.Sprint(d.LastVersion) {
				return fmt.Sprintf("stored last version id %s, model %d", se.Value, d.LastVersion)
			}
		case e.Key == internalPrefix+"term" || e.Key == internalPrefix+"term-options":
			// local by design
		case strings.HasPrefix(e.Key, internalPrefix+"notifications/"):
			if !checkNotifs {
				continue
			}
			var off int64
			if _, err := fmt.Sscanf(e.Key, internalPrefix+"notifications/%016x", &off); err != nil {
				return "bad notification key " + e.Key
			}
			nb := &proto.NotificationBatch{}
			if err := nb.UnmarshalVT(e.Value); err != nil {
				return "notification batch undecodable at " + e.Key
			}
			want, ok := d.Notifs[off]
			if !ok {
				return fmt.Sprintf("notification batch stored for offset %d which the model does not have", off)
			}
			if msg := compareNotifBatch(nb, off, d.Shard, d.NotifTs[off], want); msg != "" {
				return msg
			}
			seen["notif/"+fmt.Sprint(off)] = true
		case d.Shadows[e.Key]:
			seen[e.Key] = true
		case d.Index[e.Key]:
			seen[e.Key] = true
		default:
			r, ok := d.Recs[e.Key]
			if !ok {
				return fmt.Sprintf("DB holds key %q that the model does not have", e.Key)
			}
			se := &proto.StorageEntry{}
			if err := se.UnmarshalVT(e.Value); err != nil {
				return fmt.Sprintf("value of %q undecodable: %v", e.Key, err)
			}
			if msg := compareEntry(e.Key, se, r); msg != "" {
				return msg
			}
			seen[e.Key] = true
		}
	}
	for k := range d.Recs {
		if !seen[k] {
			return fmt.Sprintf("model has key %q (%s) that the DB lacks", k, d.Recs[k])
		}
	}
	for k := range d.Shadows {
		if !seen[k] {
			return fmt.Sprintf("model has session shadow %q that the DB lacks", k)
		}
	}
	for k := range d.Index {
		if !seen[k] {
			return fmt.Sprintf("model has index entry %q that the DB lacks", k)
		}
	}
	return ""
}

func compareEntry(key string, se *proto.StorageEntry, r *refRecord) string {
	switch {
	case !bytes.Equal(se.Value, r.Value):
		return fmt.Sprintf("key %q: value differs (db len %d, model len %d)", key, len(se.Value), len(r.Value))
	case se.VersionId != r.Version:
		return fmt.Sprintf("key %q: version id db=%d model=%d", key, se.VersionId, r.Version)
	case se.ModificationsCount != r.ModCount:
		return fmt.Sprintf("key %q: modifications count db=%d model=%d", key, se.ModificationsCount, r.ModCount)
	case se.CreationTimestamp != r.Created:
		return fmt.Sprintf("key %q: created timestamp db=%d model=%d", key, se.CreationTimestamp, r.Created)
	case se.ModificationTimestamp != r.Modified:
		return fmt.Sprintf("key %q: modified timestamp db=%d model=%d", key, se.ModificationTimestamp, r.Modified)
	case !eqI64p(se.SessionId, r.Session):
		return fmt.Sprintf("key %q: session owner differs", key)
	case !eqStrp(se.ClientIdentity, r.ClientIdentity):
		return fmt.Sprintf("key %q: client identity differs", key)
	case !eqStrp(se.PartitionKey, r.PartitionKey):
		return fmt.Sprintf("key %q: partition key differs", key)
	case len(se.SecondaryIndexes) != len(r.Indexes):
		return fmt.Sprintf("key %q: %d secondary indexes in db, %d in model", key, len(se.SecondaryIndexes), len(r.Indexes))
	}
	for i, si := range se.SecondaryIndexes {
		if si.IndexName != r.Indexes[i].Index || si.SecondaryKey != r.Indexes[i].Secondary {
			return fmt.Sprintf("key %q: secondary index %d differs", key, i)
		}
	}
	return ""
}

func compareNotifBatch(nb *proto.NotificationBatch, off, shard int64, ts uint64, want map[string]refNotification) string {
	if nb.Offset != off {
		return fmt.Sprintf("notification batch at offset %d carries offset %d", off, nb.Offset)
	}
	if nb.Shard != shard {
		return fmt.Sprintf("notification batch at offset %d carries shard %d", off, nb.Shard)
	}
	if nb.Timestamp != ts {
		return fmt.Sprintf("notification batch at offset %d: timestamp %d, expected %d", off, nb.Timestamp, ts)
	}
	if len(nb.Notifications) != len(want) {
		return fmt.Sprintf("notification batch at offset %d has %d entries, expected %d (%v vs %v)", off, len(nb.Notifications), len(want), notifKeys(nb), wantKeys(want))
	}
	for k, w := range want {
		g, ok := nb.Notifications[k]
		if !ok {
			return fmt.Sprintf("notification batch at offset %d lacks key %q", off, k)
		}
		if g.Type != w.Type || !eqI64p(g.VersionId, w.Version) || !eqStrp(g.KeyRangeLast, w.KeyRangeLast) {
			return fmt.Sprintf("notification for %q at offset %d: got (%v,%v) expected (%v,%v)", k, off, g.Type, g.VersionId, w.Type, w.Version)
		}
		if strings.HasPrefix(k, internalPrefix) {
			return fmt.Sprintf("internal key %q appears in notifications", k)
		}
	}
	return ""
}

func notifKeys(nb *proto.NotificationBatch) []string {
	var ks []string
	for k := range nb.Notifications {
		ks = append(ks, k)
	}
	sort.Strings(ks)
	return ks
}
func wantKeys(m map[string]refNotification) []string {
	var ks []string
	for k := range m {
		ks = append(ks, k)
	}
	sort.Strings(ks)
	return ks
}

// flatKeys lists every key name of the shard's flat key space known to the model,
// sorted in the hierarchical order.
func (d *refDB) flatKeys(includeTerm bool) []string {
	ks := d.allKeys()
	if d.CommitOffset >= 0 {
		ks = append(ks, internalPrefix+"commit-offset", internalPrefix+"last-version-id")
	}
	if includeTerm {
		ks = append(ks, internalPrefix+"term", internalPrefix+"term-options")
	}
	for off := range d.Notifs {
		ks = append(ks, fmt.Sprintf("%snotifications/%016x", internalPrefix, off))
	}
	sort.Slice(ks, func(i, j int) bool { return refCompare(ks[i], ks[j]) < 0 })
	return ks
}

// lookup answers a comparison get over the flat key space: returns the key name or "".
func refLookup(keys []string, key string, ct proto.KeyComparisonType) string {
	// keys sorted by refCompare
	i := sort.Search(len(keys), func(i int) bool { return refCompare(keys[i], key) >= 0 }) // first >= key
	switch ct {
	case proto.KeyComparisonType_EQUAL:
		if i < len(keys) && keys[i] == key {
			return key
		}
	case proto.KeyComparisonType_FLOOR:
		if i < len(keys) && keys[i] == key {
			return key
		}
		if i > 0 {
			return keys[i-1]
		}
	case proto.KeyComparisonType_LOWER:
		if i > 0 {
			return keys[i-1]
		}
	case proto.KeyComparisonType_CEILING:
		if i < len(keys) {
			return keys[i]
		}
	case proto.KeyComparisonType_HIGHER:
		if i < len(keys) && keys[i] == key {
			i++
		}
		if i < len(keys) {
			return keys[i]
		}
	}
	return ""
}

func refRange(keys []string, start, end string) []string {
	var out []string
	for _, k := range keys {
		if (start == "" || refCompare(k, start) >= 0) && (end == "" || refCompare(k, end) < 0) {
			out = append(out, k)
		}
	}
	return out
}

type protoComparison = proto.KeyComparisonType

